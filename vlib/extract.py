"""Read-only walker: jaqalpaq Circuit -> meaning tree / declarations / deep fingerprint.

Uses only public read-only attributes and does its OWN substitution and alias arithmetic:
never calls resolve_qubit, expand_macros, fill_in_let or fill_in_map, so those can be judged
against it.
"""

from . import setup_paths

setup_paths()

from jaqalpaq.core.block import BlockStatement, LoopStatement  # noqa: E402
from jaqalpaq.core.gate import GateStatement  # noqa: E402
from jaqalpaq.core.macro import Macro  # noqa: E402
from jaqalpaq.core.register import Register, NamedQubit  # noqa: E402
from jaqalpaq.core.constant import Constant  # noqa: E402
from jaqalpaq.core.parameter import Parameter, AnnotatedValue  # noqa: E402

from .model import norm, as_integer, is_int, is_num  # noqa: E402


class ExtractError(Exception):
    """The circuit object cannot be given a meaning (dangling reference, bad index...)."""


class Extractor:
    def __init__(self, circuit, env=None):
        self.c = circuit
        self.env = dict(env or {})

    # -- numbers --------------------------------------------------------------------
    def const_value(self, const):
        if const.name in self.env:
            return as_integer(self.env[const.name])
        v = const.value
        while isinstance(v, Constant):
            v = v.value
        return v

    def number(self, x, bindings):
        """Evaluate something in a numeric position."""
        if isinstance(x, Constant):
            return self.const_value(x)
        if isinstance(x, Parameter):
            if bindings is None or x.name not in bindings:
                raise ExtractError(f"unbound parameter {x.name}")
            k, v = bindings[x.name]
            if k != "num":
                raise ExtractError(f"parameter {x.name} bound to {k} in numeric position")
            return v
        if is_num(x):
            return x
        raise ExtractError(f"not a number: {x!r}")

    def integer(self, x, bindings, what):
        v = as_integer(self.number(x, bindings))
        if not is_int(v):
            raise ExtractError(f"{what} is not an integer: {v!r}")
        return v

    # -- registers ------------------------------------------------------------------
    def reg_elems(self, reg, bindings):
        """Tuple of fundamental indices named by a Register object (own alias arithmetic)."""
        if isinstance(reg, Parameter):
            if bindings is None or reg.name not in bindings:
                raise ExtractError(f"unbound parameter {reg.name}")
            k, v = bindings[reg.name]
            if k != "reg":
                raise ExtractError(f"parameter {reg.name} bound to {k}, indexed as register")
            return v
        if not isinstance(reg, Register):
            raise ExtractError(f"not a register: {reg!r}")
        if reg.alias_from is None:
            size = self.integer(reg._size, bindings, "register size")
            if size <= 0:
                raise ExtractError(f"register size {size}")
            return tuple(range(size))
        src = self.reg_elems(reg.alias_from, bindings)
        sl = reg.alias_slice
        if sl is None:
            return src
        start = 0 if sl.start is None else self.integer(sl.start, bindings, "slice start")
        stop = len(src) if sl.stop is None else self.integer(sl.stop, bindings, "slice stop")
        step = 1 if sl.step is None else self.integer(sl.step, bindings, "slice step")
        if step < 1 or start < 0 or stop > len(src):
            raise ExtractError(f"slice {start}:{stop}:{step} outside source of size {len(src)}")
        return tuple(src[i] for i in range(start, stop, step))

    def qubit(self, q, bindings):
        src = self.reg_elems(q.alias_from, bindings)
        i = self.integer(q.alias_index, bindings, "qubit index")
        if not 0 <= i < len(src):
            raise ExtractError(f"index {i} outside register of size {len(src)} ({q.name})")
        return src[i]

    def value(self, x, bindings):
        if isinstance(x, NamedQubit):
            return ("q", self.qubit(x, bindings))
        if isinstance(x, Register):
            return ("reg", self.reg_elems(x, bindings))
        if isinstance(x, Constant):
            return ("num", self.const_value(x))
        if isinstance(x, Parameter):
            if bindings is None or x.name not in bindings:
                raise ExtractError(f"unbound parameter {x.name}")
            return bindings[x.name]
        if is_num(x):
            return ("num", x)
        raise ExtractError(f"unknown gate argument {x!r}")

    # -- statements -----------------------------------------------------------------
    def stmt(self, s, bindings, macros):
        if isinstance(s, GateStatement):
            vals = tuple(self.value(v, bindings) for v in s.parameters.values())
            mdef = None
            if isinstance(s.gate_def, Macro):
                mdef = s.gate_def
            if s.name in macros:
                mdef = macros[s.name]
            if mdef is not None:
                if len(mdef.parameters) != len(vals):
                    raise ExtractError(f"macro {s.name} called with wrong arity")
                inner = {p.name: v for p, v in zip(mdef.parameters, vals)}
                return self.stmt(mdef.body, inner, macros)
            return ("g", s.name, vals)
        if isinstance(s, LoopStatement):
            n = self.integer(s.iterations, bindings, "loop count")
            return ("loop", n, self.stmt(s.statements, bindings, macros))
        if isinstance(s, BlockStatement):
            kids = tuple(self.stmt(x, bindings, macros) for x in s.statements)
            if s.subcircuit:
                k = self.integer(s.iterations, bindings, "subcircuit count")
                if s.parallel:
                    raise ExtractError("parallel subcircuit block")
                return ("sub", k, kids)
            return ("par" if s.parallel else "seq", kids)
        raise ExtractError(f"unknown statement {s!r}")

    def meaning(self):
        macros = dict(self.c.macros)
        return norm(("seq", tuple(self.stmt(x, None, macros) for x in self.c.body.statements)))

    def macro_meaning(self, name, argvals):
        m = self.c.macros[name]
        b = {p.name: v for p, v in zip(m.parameters, argvals)}
        return norm(self.stmt(m.body, b, dict(self.c.macros)))

    def declarations(self):
        regs = list(self.c.registers.values())
        fund = [r for r in regs if isinstance(r, Register) and r.alias_from is None]
        maps = []
        for r in regs:
            if isinstance(r, NamedQubit):
                maps.append((r.name, "q", self.qubit(r, None)))
            elif r.alias_from is not None:
                maps.append((r.name, "reg", self.reg_elems(r, None)))
        return {
            "lets": [(c.name, self.const_value(c)) for c in self.c.constants.values()],
            "reg": None if not fund else (fund[0].name, len(self.reg_elems(fund[0], None))),
            "nreg": len(fund),
            "maps": maps,
            "macros": [(m.name, tuple(p.name for p in m.parameters)) for m in self.c.macros.values()],
            "usepulses": [str(u.module) for u in self.c.usepulses],
        }


def meaning(circuit, env=None):
    return Extractor(circuit, env).meaning()


def declarations(circuit, env=None):
    return Extractor(circuit, env).declarations()


# ------------------------------------------------------------------------------ generic walks


def find_objects(circuit, pred, include_macros=True, include_header=True):
    """Generic traversal of a circuit's statements/arguments/registers; yields objects
    satisfying pred.  Used for "no Constant left", "no subcircuit block left", ..."""
    seen = set()
    out = []

    def visit(x):
        if id(x) in seen:
            return
        seen.add(id(x))
        if pred(x):
            out.append(x)
        if isinstance(x, GateStatement):
            for v in x.parameters.values():
                visit(v)
        elif isinstance(x, LoopStatement):
            visit(x.iterations)
            visit(x.statements)
        elif isinstance(x, BlockStatement):
            visit(x.iterations)
            for s in x.statements:
                visit(s)
        elif isinstance(x, NamedQubit):
            visit(x.alias_from)
            visit(x.alias_index)
        elif isinstance(x, Register):
            if x.alias_from is None:
                visit(x._size)
            else:
                visit(x.alias_from)
                if x.alias_slice is not None:
                    visit(x.alias_slice.start)
                    visit(x.alias_slice.stop)
                    visit(x.alias_slice.step)
        elif isinstance(x, Macro):
            visit(x.body)

    visit(circuit.body)
    if include_macros:
        for m in circuit.macros.values():
            visit(m)
    if include_header:
        for r in circuit.registers.values():
            visit(r)
    return out


def fingerprint(obj, _memo=None, _depth=0):
    """Deep structural fingerprint of everything reachable from obj through __dict__,
    lists, tuples, dicts, slices: types, primitive values, container shapes and element
    identities (cycle-safe).  Equal before/after a call <=> nothing reachable was modified."""
    import hashlib

    memo = {}
    order = []

    def fp(x):
        if x is None or isinstance(x, (bool, int, float, complex, str, bytes)):
            return ("p", type(x).__name__, repr(x))
        if x is all:
            return ("all",)
        i = id(x)
        if i in memo:
            return ("ref", memo[i])
        memo[i] = len(memo)
        order.append(x)  # keep alive
        if isinstance(x, (list, tuple)):
            return (type(x).__name__, tuple(fp(v) for v in x))
        if isinstance(x, dict):
            return (type(x).__name__, tuple((fp(k), fp(v)) for k, v in x.items()))
        if isinstance(x, (set, frozenset)):
            return (type(x).__name__, tuple(sorted(repr(fp(v)) for v in x)))
        if isinstance(x, slice):
            return ("slice", fp(x.start), fp(x.stop), fp(x.step))
        if callable(x) and not hasattr(x, "__dict__"):
            return ("callable", getattr(x, "__qualname__", repr(type(x))))
        if type(x).__module__ == "numpy":
            return ("ndarray", x.shape, x.tobytes())
        if hasattr(x, "__dict__"):
            if callable(x) and hasattr(x, "__code__"):
                return ("function", x.__qualname__)
            if isinstance(x, type) or type(x).__name__ == "module":
                return ("type", getattr(x, "__name__", "?"))
            return ("obj", type(x).__name__, tuple((k, fp(v)) for k, v in sorted(vars(x).items())))
        return ("other", type(x).__name__, repr(x))

    tree = fp(obj)
    return hashlib.sha256(repr(tree).encode()).hexdigest()
