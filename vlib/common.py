"""Helpers shared by the check modules (thin wrappers around the code under test)."""

from . import setup_paths

setup_paths()

from .harness import Violation, Skip, guard  # noqa: E402
from .model import Ref, Invalid, all_stmts, depth_of, is_int, same_meaning, show  # noqa: E402
from . import extract, render  # noqa: E402
from .gen import float_class  # noqa: E402


def parse(text, **kw):
    from jaqalpaq.parser import parse_jaqal_string

    kw.setdefault("autoload_pulses", False)
    return parse_jaqal_string(text, **kw)


def generate(circuit):
    from jaqalpaq.generator import generate_jaqal_program

    return generate_jaqal_program(circuit)


def prog_features(prog):
    """Syntactic feature labels of a Prog (for evidence classes / non-triviality rules)."""
    f = set()
    nums = [v for _n, v in prog["lets"]]
    for s in all_stmts(prog):
        if s[0] == "g":
            for a in s[2]:
                if a[0] == "n":
                    nums.append(a[1])
                if a[0] == "ix" and isinstance(a[2], str):
                    f.add("name-as-index")
        elif s[0] == "sub":
            f.add("subcircuit")
            if s[1] is not None and s[1] != 1:
                f.add("subcircuit-count")
            if isinstance(s[1], str):
                f.add("subcircuit-let-count")
        elif s[0] == "loop":
            f.add("loop")
            if isinstance(s[1], str):
                f.add("loop-name-count")
            if s[1] == 0:
                f.add("loop-zero")
        elif s[0] == "par":
            f.add("par")
    for v in nums:
        f.add("num:" + float_class(v))
    for _n, _src, sel in prog["maps"]:
        if sel is None:
            f.add("map-whole")
        elif sel[0] == "i":
            f.add("map-index")
            if isinstance(sel[1], str):
                f.add("map-let-bound")
        else:
            f.add("map-slice")
            if any(isinstance(x, str) for x in sel[1:]):
                f.add("map-let-bound")
            if any(x is None for x in sel[1:]):
                f.add("map-default-bound")
            if is_int(sel[3]) and sel[3] > 1:
                f.add("map-strided")
    if prog["reg"] and isinstance(prog["reg"][1], str):
        f.add("reg-let-size")
    if prog["macros"]:
        f.add("macros")
    if prog["usepulses"]:
        f.add("usepulses")
    d = max(depth_of(prog["body"]), max([depth_of([m["body"]]) for m in prog["macros"]] or [0]))
    f.add(f"depth:{min(d, 6)}")
    mnames = {m["name"] for m in prog["macros"]}
    for m in prog["macros"]:
        from .model import walk

        for s in walk([m["body"]]):
            if s[0] == "g" and s[1] in mnames:
                f.add("macro-calls-macro")
            if s[0] == "g":
                for a in s[2]:
                    if a[0] == "ix" and a[2] in m["params"]:
                        f.add("param-as-index")
                    if a[0] == "ix" and a[1] in m["params"]:
                        f.add("param-as-array")
            if s[0] in ("loop", "sub") and s[1] in m["params"]:
                f.add("param-as-count")
    return f


def depth(prog):
    return max(depth_of(prog["body"]), max([depth_of([m["body"]]) for m in prog["macros"]] or [0]))
