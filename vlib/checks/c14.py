"""C14 — no program is accepted with a reference that cannot be honoured."""

import copy

import numpy as np

from ..common import Violation, Skip, guard, parse, extract, render, same_meaning, show, Ref, Invalid
from ..harness import Part, step_budget
from .. import gen, gates, gen_emul, refexec
from ..model import is_int, walk

PROPERTY = "C14"
RULE = (
    "references: a valid executable program gets ONE injected fault, placed in a fresh subcircuit so that every "
    "pipeline stage is reachable: a qubit index from {-size-1, -size, -2, -1, size, size+1, 10^9} into the register "
    "or an alias, supplied as literal, as the value of a let, as an overriding value for a let whose declared value "
    "is valid, or as a macro argument substituted into q[p] resp. p[i]; an alias with such an index or with a slice "
    "reaching outside its source (start < 0, stop > size, step 0), literal or let-valued; indexing / aliasing a "
    "let, a single-qubit alias or an undefined name.  The documented pipeline parse -> fill_in_let(ov) -> "
    "expand_macros -> run_jaqal_circuit is driven stage by stage; the program must be rejected with JaqalError at "
    "or before the stage at which the offending value becomes known (literal: parse; let/override: let "
    "substitution; macro argument: macro expansion), no stage may raise anything else, and it must never produce "
    "a result.  The fault-free TWIN (boundary values 0 and size-1, valid slices) must pass every stage and mean "
    "what the reference says.  definitions: duplicate names across lets/register/aliases/macros, a macro named "
    "like a native gate, unknown gate / wrong arity / wrong kind against an injected native set (also after macro "
    "substitution) must be rejected, their twins accepted.  precedence: two on-disk pulse modules and an injected "
    "set define gate GP with three different signatures; exactly the call fitting the winner (injected > later "
    "import > earlier import) is accepted.  Non-trivial = a lower-bound (negative) fault, or one that becomes known "
    "only after override / substitution, or a precedence case. distinct = (text, overrides)."
    " builder-body: a call of a native gate with a surplus qubit / surplus number / missing argument / wrong kind, or of an unknown gate, inside a CircuitBuilder loop, nested loop or macro body evaluated on its own (and at top level), in a circuit with or without a let: refused by build() or at the latest by run_jaqal_circuit; the fitting twin runs.  Kind faults include a subcircuit count that names a register, alias or qubit (literally and through a macro argument)."
    " qsyntax-values (exhaustive): through Q-syntax, an index / a let used as index / a register size / a let used as size that is out of range, fractional, nan, +-inf, None, a string, a slice or 10**30 is refused with JaqalError (when the function becomes a circuit, or - let-valued - by fill_in_let)."
)
ASSUMPTIONS = ["an empty alias (stop == start) is not treated as a fault; 'reversed' slices are not injected (the property only names slices reaching outside the source)"]

STAGES = ["parse", "let", "macro", "run"]


def _bad_indices(size):
    return [-size - 1, -size, -2, -1, size, size + 1, 10**9]


def _inject(ch):
    c = gen_emul.make_emulable(ch, max_reg=4, with_env=False, max_macros=2)
    prog = c["prog"]
    try:
        ref = Ref(prog)
        ref.validate()
        n = ref.reg_size()
    except Invalid:
        return None
    regname = prog["reg"][0]
    targets = [(regname, n)]
    singles, letnames = [], [l[0] for l in prog["lets"]]
    for m in prog["maps"]:
        kind, el, _d = ref.elems(m[0])
        if kind == "reg" and len(el) >= 1:
            targets.append((m[0], len(el)))
        elif kind == "q":
            singles.append(m[0])
    tname, tsize = ch.pick(targets)
    fault = copy.deepcopy(prog)
    twin = copy.deepcopy(prog)
    env_f, env_t = {}, {}
    kind = ch.pick(["index", "index", "index", "alias-index", "alias-slice", "not-register", "not-register", "register-size", "bad-count"] + (["register-shrunk"] if n >= 2 else []))
    via = None
    stage = "parse"
    bad = ch.pick(_bad_indices(tsize))
    good = ch.pick([0, tsize - 1])
    fractional = False
    if kind in ("index", "alias-index") and ch.int(0, 5) == 0:
        # a non-integer index value (only expressible through a let, an override or a macro argument)
        bad = ch.pick([0.5, 1.5, tsize - 0.5, -0.5])
        fractional = True
    desc = {}

    def add_section(p, arg):
        p["body"].append(["sub", None, [["g", "X", [arg]]]])

    if kind == "register-size":
        via = ch.pick(["let", "override"])
        badsize = ch.pick([0, -1, -n, 2.5, 0.5])
        desc = {"size": n, "bad": badsize}
        for p in (fault, twin):
            p["lets"].append(["zz", n])
            p["reg"] = [regname, "zz"]
        if via == "let":
            fault["lets"][-1] = ["zz", badsize]
        else:
            env_f = {"zz": badsize}
        stage = "let"
        add_section(fault, ["ix", regname, 0])
        add_section(twin, ["ix", regname, 0])
    elif kind == "bad-count":
        # loop and subcircuit counts are integers: a fractional (or, through an override, a
        # non-finite) value is refused when it becomes known
        via = ch.pick(["let", "override", "macro-arg"])
        where_ = ch.pick(["loop", "sub"])
        badc = ch.pick([2.5, 0.5, -1.5])
        if via == "override" and ch.bool():
            badc = ch.pick([float("inf"), float("-inf"), float("nan")])
        goodc = ch.pick([1, 2, 2.0])
        desc = {"count": badc, "position": where_}

        def counted(cnt):
            inner = ["g", "X", [["ix", regname, 0]]]
            return ["sub", None, [["loop", cnt, ["seq", [inner]]]]] if where_ == "loop" else ["sub", cnt, [inner]]

        if via == "macro-arg":
            for p, v in ((fault, badc), (twin, goodc)):
                p["macros"].append({"name": "mzz", "params": ["pz"], "body": ["seq", [counted("pz")]]})
                p["body"].append(["g", "mzz", [["n", v]]])
            stage = "macro"
        else:
            fault["lets"].append(["zz", badc if via == "let" else goodc])
            twin["lets"].append(["zz", goodc])
            fault["body"].append(counted("zz"))
            twin["body"].append(counted("zz"))
            if via == "override":
                env_f = {"zz": badc}
                env_t = {"zz": ch.pick([1, 3])}
            stage = "let"
    elif kind == "register-shrunk":
        # the INDEX is a literal and fine for the declared size; the register (sized by a let)
        # is made smaller - by an override, or by the declared value itself
        via = ch.pick(["override", "override", "let"])
        small = ch.pick([n - 1, max(1, n - 2), 1])
        desc = {"size": n, "shrunk-to": small, "index": n - 1}
        for p in (fault, twin):
            p["lets"].append(["zz", n])
            p["reg"] = [regname, "zz"]
            p["body"].append(["sub", None, [["g", "X", [["ix", regname, n - 1]]]]])
        if via == "override":
            env_f = {"zz": small}
            env_t = {"zz": n + ch.int(0, 2)}
        else:
            fault["lets"][-1] = ["zz", small]
        stage = "let"
    elif kind == "index":
        via = ch.pick(["let", "override", "macro-index"] if fractional else ["literal", "let", "override", "macro-index", "macro-array"])
        desc = {"target": tname, "size": tsize, "bad": bad, "good": good}
        if via == "literal":
            add_section(fault, ["ix", tname, bad])
            add_section(twin, ["ix", tname, good])
        elif via == "let":
            fault["lets"].append(["zz", bad])
            twin["lets"].append(["zz", good])
            add_section(fault, ["ix", tname, "zz"])
            add_section(twin, ["ix", tname, "zz"])
            stage = "let"
        elif via == "override":
            fault["lets"].append(["zz", good])
            twin["lets"].append(["zz", good])
            add_section(fault, ["ix", tname, "zz"])
            add_section(twin, ["ix", tname, "zz"])
            env_f = {"zz": bad}
            env_t = {"zz": ch.pick([0, tsize - 1])}
            stage = "let"
        elif via == "macro-index":
            mac = {"name": "mzz", "params": ["pz"], "body": ["seq", [["g", "X", [["ix", tname, "pz"]]]]]}
            for p, v in ((fault, bad), (twin, good)):
                p["macros"].append(copy.deepcopy(mac))
                p["body"].append(["sub", None, [["g", "mzz", [["n", v]]]]])
            stage = "macro"
        else:
            for p, v in ((fault, bad), (twin, good)):
                p["macros"].append({"name": "mzz", "params": ["pz"], "body": ["seq", [["g", "X", [["ix", "pz", v]]]]]})
                p["body"].append(["sub", None, [["g", "mzz", [["id", tname]]]]])
            stage = "macro"
    elif kind == "alias-index":
        via = ch.pick(["let", "override"] if fractional else ["literal", "let", "override"])
        desc = {"target": tname, "size": tsize, "bad": bad, "good": good}
        if via == "literal":
            fault["maps"].append(["zq", tname, ["i", bad]])
            twin["maps"].append(["zq", tname, ["i", good]])
        else:
            fault["lets"].append(["zz", bad if via == "let" else good])
            twin["lets"].append(["zz", good])
            fault["maps"].append(["zq", tname, ["i", "zz"]])
            twin["maps"].append(["zq", tname, ["i", "zz"]])
            if via == "override":
                env_f = {"zz": bad}
            stage = "let"
        add_section(fault, ["id", "zq"])
        add_section(twin, ["id", "zq"])
    elif kind == "alias-slice":
        via = ch.pick(["literal", "let", "override"])
        which = ch.pick(["start", "stop", "step"])
        gs, ge, gt = 0, tsize, 1
        if which == "start":
            bs, be, bt = ch.pick([-1, -tsize, -tsize - 1]), tsize, 1
            badv, goodv = bs, gs
        elif which == "stop":
            bs, be, bt = 0, ch.pick([tsize + 1, tsize + 2, 10**9]), 1
            badv, goodv = be, ge
        else:
            bs, be, bt = 0, tsize, 0
            badv, goodv = bt, gt
        desc = {"target": tname, "size": tsize, "field": which, "bad": badv}
        pos = {"start": 1, "stop": 2, "step": 3}[which]
        fs, ts_ = ["s", bs, be, bt], ["s", gs, ge, gt]
        if via == "literal" and ch.bool():
            # the offending bound is a literal, ANOTHER bound of the same slice is a let with a
            # harmless value: still known (and refused) at parsing
            other = ch.pick([k_ for k_ in ("start", "stop", "step") if k_ != which])
            opos = {"start": 1, "stop": 2, "step": 3}[other]
            for p_ in (fault, twin):
                p_["lets"].append(["zy", [None, gs, ge, gt][opos]])
            fs[opos] = "zy"
            ts_[opos] = "zy"
            desc = dict(desc, other_bound_is_let=other)
        if via != "literal":
            fault["lets"].append(["zz", badv if via == "let" else goodv])
            twin["lets"].append(["zz", goodv])
            fs = ["s", gs, ge, gt]
            fs[pos] = "zz"
            ts_ = list(fs)
            if via == "override":
                env_f = {"zz": badv}
            stage = "let"
        fault["maps"].append(["zr", tname, fs])
        twin["maps"].append(["zr", tname, ts_])
        add_section(fault, ["ix", "zr", 0])
        add_section(twin, ["ix", "zr", 0])
    else:
        opts = ["undefined-array", "undefined-name", "macro-array-number", "loop-count-register", "count-macro-qubit", "subcircuit-count-register", "subcircuit-count-macro-qubit"]
        if singles:
            opts.append("macro-array-single")
        if letnames:
            opts += ["index-let", "alias-of-let"]
        if singles:
            opts += ["index-single", "alias-of-single", "slice-of-single"]
        via = ch.pick(opts)
        desc = {"what": via}
        if via == "undefined-array":
            add_section(fault, ["ix", "nosuch", 0])
        elif via == "undefined-name":
            # also names the builder uses internally for its own bookkeeping: they are
            # undefined identifiers like any other
            nm_ = ch.pick(["nosuch", "__in_context_subcircuit__", "__in_context_sequential__", "__in_context_parallel__"])
            form_ = ch.int(0, 2)
            if form_ == 0:
                add_section(fault, ["id", nm_])
            elif form_ == 1:
                fault["body"].append(["sub", None, [["seq", [["g", "R1", [["ix", regname, 0], ["id", nm_]]]]]]])  # as a number
            else:
                fault["body"].append(["sub", None, [["par", [["g", "X", [["ix", regname, nm_]]]]]]])  # as an index
        elif via == "loop-count-register":
            # a loop count must be a number: the register (or an alias, or a qubit) is none
            what = ch.pick([["id", regname]] + [["id", x] for x in singles[:1]] + [["id", t_[0]] for t_ in targets[1:2]])
            fault["body"].append(["sub", None, [["loop", what[1], ["seq", [["g", "X", [["ix", regname, 0]]]]]]]])
        elif via == "subcircuit-count-register":
            # ... and so must the count of a subcircuit block
            what = ch.pick([["id", regname]] + [["id", x] for x in singles[:1]] + [["id", t_[0]] for t_ in targets[1:2]])
            fault["body"].append(["sub", what[1], [["g", "X", [["ix", regname, 0]]]]])
        elif via == "subcircuit-count-macro-qubit":
            fault["macros"].append({"name": "mzz", "params": ["pz"], "body": ["seq", [["sub", "pz", [["g", "X", [["ix", regname, 0]]]]]]]})
            fault["body"].append(["g", "mzz", [ch.pick([["ix", regname, 0], ["id", regname]])]])
            stage = "macro"
        elif via == "count-macro-qubit":
            fault["macros"].append({"name": "mzz", "params": ["pz"], "body": ["seq", [["loop", "pz", ["seq", [["g", "X", [["ix", regname, 0]]]]]]]]})
            fault["body"].append(["sub", None, [["g", "mzz", [["ix", regname, 0]]]]])
            stage = "macro"
        elif via in ("macro-array-number", "macro-array-single"):
            # the index is applied to a macro PARAMETER; what it is applied to is only known
            # when the call is expanded
            fault["macros"].append({"name": "mzz", "params": ["pz"], "body": ["seq", [["g", "X", [["ix", "pz", 0]]]]]})
            arg = ["n", ch.pick([0, 1, 2.5])] if via == "macro-array-number" else ["id", ch.pick(singles)]
            fault["body"].append(["sub", None, [["g", "mzz", [arg]]]])
            stage = "macro"
        elif via == "index-let":
            add_section(fault, ["ix", ch.pick(letnames), 0])
        elif via == "alias-of-let":
            fault["maps"].append(["zq", ch.pick(letnames), ["i", 0]])
            add_section(fault, ["id", "zq"])
        elif via == "index-single":
            add_section(fault, ["ix", ch.pick(singles), 0])
        elif via == "alias-of-single":
            fault["maps"].append(["zr", ch.pick(singles), None])
            add_section(fault, ["ix", "zr", 0])
        else:
            fault["maps"].append(["zr", ch.pick(singles), ["s", 0, 1, 1]])
            add_section(fault, ["ix", "zr", 0])
        add_section(twin, ["ix", tname, good])
    return {"fault": fault, "twin": twin, "env_fault": env_f, "env_twin": env_t, "stage": stage, "kind": kind, "via": via, "desc": desc, "gate_seed": c["gate_seed"]}


def _ref_case(ch):
    for _ in range(5):
        c = _inject(ch)
        if c is not None:
            return c
    return {"skip": True}


def _pipeline(prog, env, gate_seed):
    """Drive the documented pipeline; returns (first_failing_stage|None, error|result)."""
    from jaqalpaq.core.algorithm import fill_in_let, expand_macros
    from jaqalpaq.emulator import run_jaqal_circuit

    text = render.to_text(prog)
    nat = gates.make_gates(gate_seed)
    st_, c = guard(parse, text, inject_pulses=nat, what="parse")
    if st_ == "err":
        return "parse", c, text
    st_, c1 = guard(fill_in_let, c, dict(env) if env else None, what="fill_in_let")
    if st_ == "err":
        return "let", c1, text
    st_, c2 = guard(expand_macros, c1, what="expand_macros")
    if st_ == "err":
        return "macro", c2, text
    np.random.seed(5)
    with step_budget(10**7):
        st_, res = guard(run_jaqal_circuit, c2, what="run_jaqal_circuit")
    if st_ == "err":
        return "run", res, text
    return None, (c, c2, res), text


def references(case):
    if case.get("skip"):
        raise Skip()
    fault, twin = case["fault"], case["twin"]
    # the harness's own claim: the reference rejects the faulty program and accepts the twin
    try:
        Ref(fault, case["env_fault"]).validate()
        tree = refexec.expand(Ref(fault, case["env_fault"]))
        raise Skip()  # reference sees no fault (e.g. the alias is unused after shrinking)
    except Invalid as inv:
        ref_kind = inv.kind
        # the value also becomes known only after let substitution when the SIZE it is checked
        # against is let-valued (the reference tracks what the offending check depends on)
        if STAGES.index(inv.stage) > STAGES.index(case["stage"]):
            case = dict(case, stage=inv.stage)
    expected_kinds = {"index": {"index", "non-integer"}, "alias-index": {"index", "non-integer"}, "alias-slice": {"slice"}, "not-register": {"not-a-register", "undefined", "not-a-number", "non-integer"}, "register-size": {"register-size", "non-integer"}, "register-shrunk": {"index", "slice"}, "bad-count": {"non-integer", "number"}}
    if ref_kind not in expected_kinds.get(case["kind"], ()):
        raise Skip()  # not the injected fault any more (only happens to shrunk / hand-edited cases)
    b_ = case["desc"].get("bad")
    if case["kind"] in ("index", "alias-index") and not (
        is_int(case["desc"].get("size"))
        and case["desc"]["size"] >= 1
        and ((is_int(b_) and not 0 <= b_ < case["desc"]["size"]) or (isinstance(b_, float) and b_ != int(b_)))
    ):
        raise Skip()
    try:
        rt = Ref(twin, case["env_twin"])
        m_twin = rt.validate()
        n = rt.reg_size()
        ttree = refexec.expand(rt)
        if refexec.static_errors(ttree, n) or refexec.accept(ttree)[0] != "ok" or refexec.unrolled_size(ttree) > 2000:
            raise Skip()
    except Invalid:
        raise Skip()
    stage, out, text = _pipeline(fault, case["env_fault"], case["gate_seed"])
    ctx = f"fault {case['kind']}/{case['via']} {case['desc']} (reference: {ref_kind}); value known at stage '{case['stage']}'\n--- overrides {case['env_fault']}\n--- program:\n{text}"
    where = f"{case['kind']}/{case['via']}"
    if stage is None:
        raise Violation("invalid-reference-executed", f"every stage accepted it and the emulator returned a result\n{ctx}", where=where + ":" + _sign(case))
    if STAGES.index(stage) > STAGES.index(case["stage"]):
        raise Violation("rejected-too-late", f"rejected only at stage '{stage}' ({out})\n{ctx}", where=where + ":" + _sign(case) + ":" + stage)
    tstage, tout, ttext = _pipeline(twin, case["env_twin"], case["gate_seed"])
    if tstage is not None:
        raise Violation("valid-twin-rejected", f"stage '{tstage}': {tout}\n--- overrides {case['env_twin']}\n--- program:\n{ttext}", where=where)
    c, c2, _res = tout
    try:
        got = extract.meaning(c2, {})
    except extract.ExtractError as e:
        raise Violation("twin-unresolvable", f"{e}\n--- program:\n{ttext}")
    m_ref = Ref(twin, case["env_twin"]).meaning()
    if not same_meaning(m_ref, got):
        raise Violation("twin-meaning", f"expected {show(m_ref)}\ngot      {show(got)}\n--- program:\n{ttext}")
    neg = _sign(case) == "negative"
    nt = neg or case["stage"] != "parse"
    return {"nontrivial": nt, "classes": ["fault:" + where, "known-at:" + case["stage"], "rejected-at:" + stage] + (["negative"] if neg else []), "key": text + repr(case["env_fault"]), "sample": {"text": text, "overrides": case["env_fault"], "fault": where, "rejected_at": stage}}


def _sign(case):
    b = case["desc"].get("bad")
    if isinstance(b, float):
        return "fractional"
    if is_int(b):
        return "negative" if b < 0 else "zero-step" if b == 0 else "too-large"
    return "n/a"


# ------------------------------------------------------------------------------ definitions


def _def_case(ch):
    mode = ch.pick(["anon", "native"])
    names = ["U1", "R1", "N1", "U2", "P2"]
    cfg = gen.Cfg(natives=gates.kinds_table(idle=False, names=names) if mode == "native" else None, reg_args=False, general_numbers=False, max_depth=3, usepulses=False, max_lets=3, max_maps=3)
    prog, b = gen.make_prog(ch, cfg)
    fault = copy.deepcopy(prog)
    lets = [l[0] for l in prog["lets"]]
    maps = [m[0] for m in prog["maps"]]
    reg = prog["reg"][0]
    kinds = ["dup"]
    if mode == "native":
        kinds += ["unknown-gate", "arity", "kind", "macro-named-like-native", "kind-after-substitution"]
    if prog["macros"]:
        kinds.append("dup-macro")
    kinds.append("dup-param")
    called = {s[1] for s in walk(prog["body"]) if s[0] == "g"} | {s[1] for m in prog["macros"] for s in walk([m["body"]]) if s[0] == "g"}
    called_macros = [m["name"] for m in prog["macros"] if m["name"] in called]
    if mode == "native" and called_macros:
        # faults by REMOVAL: every call text of the faulty program also occurs in the valid twin
        # (which is parsed first, with the same gate-set object)
        kinds += ["macro-removed", "macro-arity-changed"]
    kind = ch.pick(kinds)
    expect_stage = "parse"
    desc = kind
    if kind == "dup":
        pool = lets + maps + [reg]
        name = ch.pick(pool)
        form = ch.pick(["let", "map"])
        if form == "let":
            fault["lets"].append([name, 1])
        else:
            fault["maps"].append([name, reg, None])
        desc = f"dup:{form}-named-like-{'let' if name in lets else 'register' if name == reg else 'alias'}"
    elif kind == "dup-param":
        pn_ = ch.pick(["a", "p", "zz"])
        n_par = ch.int(2, 3)
        params_ = [pn_] * n_par if ch.bool() else [pn_, "zq", pn_][:n_par] if n_par == 3 else [pn_, pn_]
        fault["macros"].append({"name": "mzz", "params": params_, "body": ["seq", []]})
        desc = "dup-param"
    elif kind == "dup-macro":
        m = copy.deepcopy(ch.pick(prog["macros"]))
        fault["macros"].append(m)
    elif kind == "macro-removed":
        name = ch.pick(called_macros)
        fault["macros"] = [m for m in fault["macros"] if m["name"] != name]
        desc = "macro-removed"
    elif kind == "macro-arity-changed":
        name = ch.pick(called_macros)
        m = [m for m in fault["macros"] if m["name"] == name][0]
        if m["params"] and ch.bool():
            m["params"] = m["params"][:-1]
        else:
            m["params"] = m["params"] + ["zz_extra"]
        desc = "macro-arity-changed"
    elif kind == "macro-named-like-native":
        fault["macros"].append({"name": ch.pick(names), "params": [], "body": ["seq", []]})
    elif kind == "unknown-gate":
        # also names that LOOK derived from a native gate: the set in force has no idle or
        # stretched gates, so they are as unknown as any other name
        g0 = ch.pick(["U1", "N1"])
        uname = ch.pick(["NoSuchGate", "I_" + g0, g0 + "_stretched", "I_I_" + g0, g0.lower()])
        uargs = [["ix", reg, 0]] + ([["n", 1]] if g0 == "N1" and uname != "NoSuchGate" else [])
        fault["body"].append(["g", uname, uargs])
        desc = "unknown-gate"
    elif kind == "arity":
        g = ch.pick(names)
        sig = gates.KINDS[g]
        k = len(sig) + ch.pick([-1, 1])
        args = [["ix", reg, 0] if (i < len(sig) and sig[i] == "q") else ["n", 1] for i in range(k)]
        fault["body"].append(["g", g, args])
    elif kind == "kind":
        g = ch.pick(names)
        sig = gates.KINDS[g]
        j = ch.int(0, len(sig) - 1)
        args = []
        for i, s in enumerate(sig):
            ok = ["ix", reg, 0] if s == "q" else ["n", 1]
            if i == j:
                bad = ["n", 1] if s == "q" else (["ix", reg, 0] if s == "f" else ch.pick([["n", 0.5], ["ix", reg, 0]]))
                args.append(bad)
            else:
                args.append(ok)
        if sig[j] == "i" and ch.bool():
            # the same definition has accepted an INTEGRAL float for that parameter just before
            # (in the valid twin too): acceptance is decided per call, not remembered per type
            warm = ["g", g, [["ix", reg, 0] if s == "q" else ["n", 2.0] if i == j else ["n", 1] for i, s in enumerate(sig)]]
            prog["body"].append(warm)
            fault["body"].append(copy.deepcopy(warm))
        fault["body"].append(["g", g, args])
        desc = f"kind:{sig[j]}"
    elif kind == "kind-after-substitution":
        g = ch.pick(["U1", "N1"])
        if g == "U1":
            fault["macros"].append({"name": "mzz", "params": ["pz"], "body": ["seq", [["g", "U1", [["id", "pz"]]]]]})
            fault["body"].append(["g", "mzz", [["n", 0.5]]])
        else:
            if ch.bool():
                warm = ["g", "N1", [["ix", reg, 0], ["n", 4.0]]]
                prog["body"].append(warm)
                fault["body"].append(copy.deepcopy(warm))
            fault["macros"].append({"name": "mzz", "params": ["pz"], "body": ["seq", [["g", "N1", [["ix", reg, 0], ["id", "pz"]]]]]})
            fault["body"].append(["g", "mzz", [["n", 0.5]]])
        expect_stage = "macro"
        desc = f"kind-after-substitution:{g}"
    return {"prog": prog, "fault": fault, "mode": mode, "desc": desc, "stage": expect_stage}


def _fault_present(case):
    """The injected definition fault is really in the case (shrunk / edited cases may lose it)."""
    from ..model import walk

    f, d = case["fault"], case["desc"]
    names = [l[0] for l in f["lets"]] + [m[0] for m in f["maps"]] + ([f["reg"][0]] if f["reg"] else [])
    gates_used = [s for s in walk(f["body"]) if s[0] == "g"]
    if d.startswith("dup:"):
        return len(set(names)) != len(names)
    if d == "dup-param":
        return any(len(set(m["params"])) != len(m["params"]) for m in f["macros"])
    if d == "dup-macro":
        mn = [m["name"] for m in f["macros"]]
        return len(set(mn)) != len(mn)
    if d in ("macro-removed", "macro-arity-changed"):
        sig_f = {m["name"]: len(m["params"]) for m in f["macros"]}
        sig_p = {m["name"]: len(m["params"]) for m in case["prog"]["macros"]}
        callsf = {s[1] for s in gates_used} | {s[1] for m in f["macros"] for s in walk([m["body"]]) if s[0] == "g"}
        changed = [n for n in sig_p if sig_f.get(n) != sig_p[n]]
        return len(changed) == 1 and changed[0] in callsf and f["body"] == case["prog"]["body"]
    if d == "macro-named-like-native":
        return any(m["name"] in gates.KINDS for m in f["macros"])
    if d == "unknown-gate":
        known = {"U1", "R1", "N1", "U2", "P2", "prepare_all", "measure_all"} | {m["name"] for m in f["macros"]}
        return any(s[1] not in known for s in gates_used)
    if d.startswith("kind-after-substitution"):
        return any(m["name"] == "mzz" and m["params"] == ["pz"] and m["body"][1] for m in f["macros"]) and any(s[1] == "mzz" and s[2] == [["n", 0.5]] for s in gates_used)
    if d == "arity" or d.startswith("kind:"):
        return f["body"] != case["prog"]["body"] and f["macros"] == case["prog"]["macros"] and len(f["body"]) == len(case["prog"]["body"]) + 1
    return False


def definitions(case):
    from jaqalpaq.core.algorithm import expand_macros, fill_in_let

    if not _fault_present(case):
        raise Skip()

    kw = {}
    if case["mode"] == "native":
        kw["inject_pulses"] = gates.make_gates(3, idle=False, names=["U1", "R1", "N1", "U2", "P2"])
    ttext = render.to_text(case["prog"])
    try:
        Ref(case["prog"]).validate()
    except Invalid:
        raise Skip()
    st_, c = guard(parse, ttext, what="parse", **kw)
    if st_ == "err":
        raise Violation("valid-twin-rejected", f"{c}\n--- program:\n{ttext}", where=case["desc"])
    text = render.to_text(case["fault"])
    st_, c = guard(parse, text, what="parse", **kw)
    stage = "parse" if st_ == "err" else None
    if stage is None and case["stage"] == "macro":
        st_, c1 = guard(fill_in_let, c, what="fill_in_let")
        if st_ == "ok":
            st_, c1 = guard(expand_macros, c1, what="expand_macros")
        if st_ == "err":
            stage = "macro"
    if stage is None:
        raise Violation("invalid-definition-accepted", f"{case['desc']}\n--- program:\n{text}", where=case["desc"])
    return {"nontrivial": case["stage"] != "parse" or case["desc"].startswith("dup:"), "classes": ["fault:" + case["desc"].split(":")[0], "mode:" + case["mode"]], "key": text, "sample": {"text": text, "fault": case["desc"]}}


# ------------------------------------------------------------------------------ precedence


def _prec_enum(tier):
    for imports in (["moda"], ["modb"], ["moda", "modb"], ["modb", "moda"], ["moda", "modb", "moda"], ["modb", "moda", "modb"], ["moda", "moda"], ["modb", "modb", "moda"]):
        for inject in (False, True):
            for call in ("one", "two", "float"):
                for extra in (False, True):
                    yield {"imports": imports, "inject": inject, "call": call, "extra": extra}
                    if inject and extra:
                        # the injected set given as a list / tuple of definitions, and one that
                        # leaves prepare_all / measure_all to the imports
                        for form in ("list", "tuple", "dict-partial", "list-partial"):
                            yield {"imports": imports, "inject": inject, "call": call, "extra": extra, "form": form}


def precedence(case):
    from jaqalpaq.core import GateDefinition, Parameter, ParamType
    from jaqalpaq.core.gatedef import BusyGateDefinition

    lines = [f"from vlib.pulses.{m} usepulses *" for m in case["imports"]]
    lines.append("register q[2]")
    call = {"one": "GP q[0]", "two": "GP q[0] q[1]", "float": "GP q[1] 0.5"}[case["call"]]
    lines += ["prepare_all", call]
    if case["extra"]:
        lines.append("X" + ("A" if case["imports"][0] == "moda" else "B") + " q[0]")
    lines.append("measure_all")
    text = "\n".join(lines) + "\n"
    inj = None
    if case["inject"]:
        inj = {
            "GP": GateDefinition("GP", [Parameter("a", ParamType.QUBIT), Parameter("t", ParamType.FLOAT)]),
            "prepare_all": BusyGateDefinition("prepare_all"),
            "measure_all": BusyGateDefinition("measure_all"),
        }
    form = case.get("form", "dict")
    if inj is not None and form != "dict":
        if form.endswith("partial"):
            inj = {"GP": inj["GP"]}
        if form.startswith("list"):
            inj = list(inj.values())
        elif form == "tuple":
            inj = tuple(inj.values())
    inj_gp = None if inj is None else (inj["GP"] if isinstance(inj, dict) else [g_ for g_ in inj if g_.name == "GP"][0])
    winner = "float" if case["inject"] else ("one" if case["imports"][-1] == "moda" else "two")
    st_, c = guard(parse, text, inject_pulses=inj, autoload_pulses=True, what="parse", allowed=None)
    expect_ok = case["call"] == winner
    if expect_ok and st_ == "err":
        raise Violation("winning-definition-rejected", f"{c}\ninjected={case['inject']}\n--- program:\n{text}", where=winner)
    if not expect_ok and st_ == "ok":
        raise Violation("losing-definition-used", f"call fits a definition that should have been overridden (winner: {winner}, injected={case['inject']})\n--- program:\n{text}", where=winner)
    if st_ == "ok":
        gp = [s for s in c.body.statements if s.name == "GP"][0]
        want_n = {"one": 1, "two": 2, "float": 2}[winner]
        if len(gp.gate_def.parameters) != want_n or (winner == "float") != (not gp.gate_def.parameters[-1].classical is False):
            pass
        if case["inject"] and gp.gate_def is not inj_gp:
            raise Violation("losing-definition-used", f"GP bound to {gp.gate_def!r}, expected the injected definition\n--- program:\n{text}", where=winner)
        if c.native_gates.get("GP") is not gp.gate_def:
            raise Violation("native-table-inconsistent", f"circuit.native_gates['GP'] is not the definition used\n--- program:\n{text}", where=winner)
    # a gate with the SAME name and signature in both modules but another unitary: the later
    # import's definition object must be the native one, and it is the one emulated
    import importlib

    from jaqalpaq.emulator import run_jaqal_circuit

    # a subcircuit block names neither prepare_all nor measure_all: they come from the imports
    # (or the injected set) all the same
    text2 = "\n".join(lines[: len(case["imports"])] + ["register q[2]"] + (["subcircuit {", "SP q[0]", "}"] if case["extra"] else ["prepare_all", "SP q[0]", "measure_all"])) + "\n"
    st_, c2 = guard(parse, text2, inject_pulses=inj, autoload_pulses=True, what="parse", allowed=None)
    if st_ == "err":
        raise Violation("winning-definition-rejected", f"{c2}\n--- program:\n{text2}", where="same-signature")
    last = case["imports"][-1]
    want_def = importlib.import_module("vlib.pulses." + last).jaqal_gates.ALL_GATES["SP"]
    flat2 = [y for x in c2.body.statements for y in (x.statements if hasattr(x, "statements") else [x])]
    sp = [s_ for s_ in flat2 if getattr(s_, "name", None) == "SP"][0]
    if sp.gate_def is not want_def or c2.native_gates.get("SP") is not want_def:
        raise Violation("losing-definition-used", f"SP is not the definition of the last import ({last})\n--- program:\n{text2}", where="same-signature")
    st_, r2 = guard(run_jaqal_circuit, c2, what="run_jaqal_circuit")
    if st_ == "err":
        raise Violation("winning-definition-rejected", f"run: {r2}\n--- program:\n{text2}", where="same-signature")
    p1 = float(r2.subcircuits[0].simulated_probability_by_int[1])
    if abs(p1 - (1.0 if last == "moda" else 0.0)) > 1e-9:
        raise Violation("losing-definition-used", f"SP emulated with the other module's unitary: P(q0=1) = {p1}, last import {last}\n--- program:\n{text2}", where="same-signature-emulated")
    if inj is not None:
        # every gate the program NAMES is injected; its subcircuit block still needs the
        # imports' prepare_all / measure_all (when the injected set leaves them out)
        text3 = "\n".join(lines[: len(case["imports"])] + ["register q[2]", "subcircuit {", "GP q[1] 0.5", "}"]) + "\n"
        st_, c3 = guard(parse, text3, inject_pulses=inj, autoload_pulses=True, what="parse", allowed=None)
        if st_ == "err":
            raise Violation("winning-definition-rejected", f"{c3}\n--- program:\n{text3}", where="injected-only-calls")
        st_, r3 = guard(run_jaqal_circuit, c3, what="run_jaqal_circuit")
        if st_ == "err":
            raise Violation("winning-definition-rejected", f"run: {r3} (injected set form {form})\n--- program:\n{text3}", where="injected-only-calls")
        for nm in ("prepare_all", "measure_all"):
            wantd = (inj[nm] if isinstance(inj, dict) else [g_ for g_ in inj if g_.name == nm][0]) if form in ("dict", "list", "tuple") else importlib.import_module("vlib.pulses." + last).jaqal_gates.ALL_GATES[nm]
            if c3.native_gates.get(nm) is not wantd:
                raise Violation("losing-definition-used", f"{nm} of the circuit is not the {'injected' if form in ('dict', 'list', 'tuple') else 'last import (' + last + ')'} definition\n--- program:\n{text3}", where="injected-only-calls")
    return {"nontrivial": True, "classes": ["winner:" + winner, "imports:%d" % len(case["imports"])], "key": repr(case), "sample": {"text": text, "injected": case["inject"], "accepted": expect_ok}}


# ------------------------------------------------------------------------------ builder API


def _builder_case(ch):
    n = ch.int(1, 5)
    kind = ch.pick(["slice-stop", "slice-start", "slice-negative", "step", "index", "index-negative", "two-registers", "good", "good"])
    return {"n": n, "kind": kind, "evaluated": ch.bool(), "by_object": ch.bool(), "seed": ch.int(0, 10**6)}


def builder_api(case):
    """The same faults through CircuitBuilder.map / register (source given as the Register
    object or by name, evaluated at once or lazily): an alias reaching outside its source is
    refused by map() or at the latest by build(), never clamped or wrapped; a circuit with two
    registers does not reach the emulator."""
    from jaqalpaq.core.circuitbuilder import CircuitBuilder
    from jaqalpaq.emulator import run_jaqal_circuit

    n, kind, ev, by_obj = case["n"], case["kind"], case["evaluated"], case["by_object"]
    if not (1 <= n <= 8):
        raise Skip()
    ch = gen.Chooser(case["seed"])
    nat = gates.make_gates(1, idle=False, names=["U1", "X"])
    cb = CircuitBuilder(native_gates=nat)
    # the register is evaluated whenever the alias refers to it as an object or is evaluated itself
    reg_eval = ev or by_obj
    r = cb.register("r", n, unevaluated=not reg_eval)
    src = r if (by_obj and reg_eval) else "r"
    if ev and not by_obj:
        src = r  # an evaluated map needs the object (a name cannot be looked up yet)
    good = True
    idx_form = False
    if kind == "slice-stop":
        sel, good = slice(0, n + ch.pick([1, 2, 10**6]), 1), False
    elif kind == "slice-start":
        sel, good = slice(n + ch.int(1, 2), None, 1), n + 1 > n and False
    elif kind == "slice-negative":
        sel, good = ch.pick([slice(-1, None), slice(-n, n), slice(0, -1), slice(-n - 1, None, 1)]), False
    elif kind == "step":
        sel, good = slice(0, n, ch.pick([0, -1])), False
    elif kind == "index":
        sel, good, idx_form = n + ch.int(0, 2), False, True
    elif kind == "index-negative":
        sel, good, idx_form = -ch.int(1, n + 1), False, True
    elif kind == "two-registers":
        sel = slice(0, n, 1)
    else:
        a_ = ch.int(0, n - 1)
        sel = ch.pick([slice(a_, n), slice(a_, n, 1), slice(None, None, ch.int(1, 2)), slice(0, a_ + 1)])
    desc = f"register r[{n}], map a {'<Register object>' if src is r and not isinstance(r, tuple) else 'r'} {sel!r}, evaluated={ev}, kind {kind}"

    def make():
        cb.map("a", src, sel, unevaluated=not ev)
        if kind == "two-registers":
            cb.register("s", 2, unevaluated=not reg_eval)
            cb.gate("prepare_all")
            cb.gate("X", ("array_item", "s", 1))
            cb.gate("measure_all")
        else:
            cb.gate("prepare_all")
            cb.gate("U1", "a" if idx_form else ("array_item", "a", 0))
            cb.gate("measure_all")
        return cb.build()

    st_, c = guard(make, what="CircuitBuilder")
    if kind == "two-registers":
        if st_ == "ok":
            np.random.seed(3)
            st_, res = guard(run_jaqal_circuit, c, what="run_jaqal_circuit")
            if st_ == "ok":
                raise Violation("invalid-reference-executed", f"a circuit with two registers was executed\n{desc}", where="builder:two-registers")
        return {"nontrivial": True, "classes": ["kind:" + kind], "key": repr(case)}
    if not good:
        if st_ == "ok":
            from ..common import generate

            raise Violation("invalid-reference-executed" if False else "invalid-definition-accepted", f"{desc}\nbuilt: {generate(c)}", where="builder:" + kind)
        return {"nontrivial": True, "classes": ["kind:" + kind, "evaluated:%s" % ev, "by-object:%s" % by_obj], "key": repr(case)}
    if st_ == "err":
        raise Violation("valid-twin-rejected", f"{c}\n{desc}", where="builder:" + kind)
    # the accepted alias is the one the text form declares
    st = sel.start or 0
    stop = n if sel.stop is None else sel.stop
    step = sel.step or 1
    text = f"register r[{n}]\nmap a r[{st}:{stop}:{step}]\nprepare_all\nU1 a[0]\nmeasure_all\n"
    ct = parse(text, inject_pulses=nat)
    if not (c == ct) or not (ct == c):
        from ..common import generate

        raise Violation("twin-meaning", f"{desc}\nbuilder: {generate(c)}\ntext: {text}", where="builder:" + kind)
    return {"nontrivial": False, "classes": ["kind:" + kind, "evaluated:%s" % ev, "by-object:%s" % by_obj], "key": repr(case)}


def _body_case(ch):
    return {
        "n": ch.int(2, 4),
        "gate": ch.pick(["X", "R1", "N1", "U2"]),
        "fault": ch.pick(["surplus-qubit", "surplus-number", "missing", "kind", "unknown-gate", "good", "good"]),
        "place": ch.pick(["loop", "macro", "nested-loop", "top"]),
        "with_let": ch.bool(),
        "seed": ch.int(0, 10**6),
    }


def builder_body(case):
    """A call with the wrong number or kind of arguments (or of an unknown gate) inside a block
    that the object-oriented builder evaluates ON ITS OWN - the default for CircuitBuilder.loop()
    and .macro() with a BlockBuilder body, where the native gate set is not yet in force - must
    be refused at the latest when the circuit is run; circuits with and without lets alike.  The
    valid twin runs."""
    from jaqalpaq.core.circuitbuilder import CircuitBuilder, SequentialBlockBuilder
    from jaqalpaq.emulator import run_jaqal_circuit

    n, gname, fault, place = case["n"], case["gate"], case["fault"], case["place"]
    if not (2 <= n <= 6) or gname not in ("X", "R1", "N1", "U2"):
        raise Skip()
    nat = gates.make_gates(1, idle=False, names=["X", "R1", "N1", "U2"])
    kinds = gates.KINDS[gname]
    cb = CircuitBuilder(native_gates=nat)
    if case["with_let"]:
        cb.let("unused", 3)
    reg = cb.register("r", n)
    ch = gen.Chooser(case["seed"])
    qs = ch.sample(list(range(n)), 2)

    def arg(k, j):
        return reg[qs[j % 2]] if k == "q" else (0.25 if k == "f" else 2)

    args = [arg(k, sum(1 for x in kinds[:i] if x == "q")) for i, k in enumerate(kinds)]
    name = gname
    if fault == "surplus-qubit":
        args = args + [reg[[q for q in range(n) if q not in qs[: kinds.count("q")]][0]]] if n > kinds.count("q") else args + [0.5]
    elif fault == "surplus-number":
        args = args + [0.25]
    elif fault == "missing":
        args = args[:-1]
    elif fault == "kind":
        # a number where a qubit is expected / a qubit where a number is expected
        i = ch.int(0, len(kinds) - 1)
        args[i] = 0.5 if kinds[i] == "q" else reg[[q for q in range(n) if q not in qs[: kinds.count("q")]][0] if n > kinds.count("q") else qs[0]]
    elif fault == "unknown-gate":
        name = "X_not_native"
    good = fault == "good"
    desc = f"register r[{n}]; {name} {args!r} placed in {place}; with_let={case['with_let']}"

    def make():
        if place == "top":
            cb.gate("prepare_all")
            cb.gate(name, *args)
            cb.gate("measure_all")
        elif place == "loop":
            cb.gate("prepare_all")
            body = SequentialBlockBuilder()
            body.gate(name, *args)
            cb.loop(ch.int(1, 2), body)
            cb.gate("measure_all")
        elif place == "nested-loop":
            cb.gate("prepare_all")
            inner = SequentialBlockBuilder()
            inner.gate(name, *args)
            outer = SequentialBlockBuilder()
            outer.loop(1, inner)
            cb.loop(2, outer)
            cb.gate("measure_all")
        else:
            body = SequentialBlockBuilder()
            body.gate(name, *args)
            cb.macro("flip", [], body)
            cb.gate("prepare_all")
            cb.gate("flip")
            cb.gate("measure_all")
        return cb.build()

    st_, c = guard(make, what="CircuitBuilder")
    stage = "build"
    if st_ == "ok":
        np.random.seed(3)
        st_, res = guard(run_jaqal_circuit, c, what="run_jaqal_circuit")
        stage = "run"
    classes = ["fault:" + fault, "place:" + place, "with-let:%s" % case["with_let"]]
    if good:
        if st_ == "err":
            raise Violation("valid-twin-rejected", f"{stage}: {c if stage == 'build' else res}\n{desc}", where="builder-body:" + place)
        return {"nontrivial": False, "classes": classes, "key": repr(case)}
    if st_ == "ok":
        raise Violation("invalid-reference-executed", f"{desc}\nwas built and executed", where="builder-body:" + fault)
    return {"nontrivial": True, "classes": classes + ["refused-at:" + stage], "key": repr(case)}


_QBAD = ["size", "size+1", "-1", "1.5", "nan", "inf", "-inf", "none", "str", "slice", "huge"]


def _q_enum(tier):
    for where in ("index", "let-index", "register-size", "let-size", "good"):
        for bad in _QBAD:
            for n in (1, 3):
                yield {"where": where, "bad": bad, "n": n}


def qsyntax_values(case):
    """The same faults through Q-syntax: an index, a register size or a let used as one that is
    out of range or no finite integer at all (nan, inf, None, a string, a slice) is refused with
    JaqalError when the function is turned into a circuit - no other exception, no circuit."""
    from jaqalpaq.qsyntax import circuit

    n, where, bad = case["n"], case["where"], case["bad"]
    if where not in ("index", "let-index", "register-size", "let-size", "good") or bad not in _QBAD or not (1 <= n <= 6):
        raise Skip()
    v = {"size": n, "size+1": n + 1, "-1": -1, "1.5": 1.5, "nan": float("nan"), "inf": float("inf"), "-inf": float("-inf"), "none": None, "str": "a", "slice": slice(0, 1), "huge": 10**30}[bad]
    if where in ("register-size", "let-size") and bad in ("size", "size+1", "huge"):
        raise Skip()  # legal sizes
    if where in ("let-index", "let-size") and bad in ("none", "str", "slice"):
        raise Skip()  # not a let value at all: the let itself is outside this part

    @circuit
    def prog(Q):
        if where == "good":
            k = Q.let(n - 1, "k")
            r = Q.register(n, "r")
            Q.G(r[k], r[0])
        elif where == "index":
            r = Q.register(n, "r")
            Q.G(r[v])
        elif where == "let-index":
            k = Q.let(v, "k")
            r = Q.register(n, "r")
            Q.G(r[k])
        elif where == "register-size":
            r = Q.register(v, "r")
            Q.G(r[0])
        else:
            k = Q.let(v, "k")
            r = Q.register(k, "r")
            Q.G(r[0])

    st_, c = guard(prog, what="Q-syntax circuit")
    if where == "good":
        if st_ == "err":
            raise Violation("valid-twin-rejected", f"{c}", where="qsyntax")
        return {"nontrivial": False, "classes": ["where:good"], "key": repr(case)}
    stage = "build"
    if st_ == "ok" and where in ("let-index", "let-size"):
        # the value of a let becomes known when lets are substituted (as in text)
        from jaqalpaq.core.algorithm import fill_in_let

        c0 = c
        st_, c = guard(fill_in_let, c0, what="fill_in_let")
        stage = "let"
        if st_ == "ok":
            c = c0
    if st_ == "ok":
        from ..common import generate

        raise Violation("invalid-definition-accepted", f"Q-syntax: {where} = {v!r} on a register of {n} accepted\nbuilt: {generate(c)}", where="qsyntax:" + where)
    return {"nontrivial": True, "classes": ["where:" + where, "value:" + bad, "refused-at:" + stage], "key": repr(case)}


def parts():
    return [
        Part("references", gen.cases(_ref_case), references, quick=5000, thorough=120000, min_nontrivial=0.3),
        Part("definitions", gen.cases(_def_case), definitions, quick=2000, thorough=40000, min_nontrivial=0.1),
        Part("precedence", None, precedence, quick=0, thorough=0, exhaustive=_prec_enum, shards=4),
        Part("builder-api", gen.cases(_builder_case), builder_api, quick=600, thorough=8000, min_nontrivial=0.3),
        Part("qsyntax-values", None, qsyntax_values, quick=0, thorough=0, exhaustive=_q_enum, shards=1),
        Part("builder-body", gen.cases(_body_case), builder_body, quick=600, thorough=8000, min_nontrivial=0.3),
    ]
