"""C18 — gate definitions check calls; idle and stretched variants act as specified."""

import itertools
import math

import numpy as np

from ..common import Violation, Skip, guard, parse, render, Ref, Invalid
from ..harness import Part
from .. import gen, gates, gen_emul, refexec

PROPERTY = "C18"
RULE = (
    "calls: signatures of length 0-3 (exhaustive; random ones up to length 4) over the parameter kinds {QUBIT, "
    "REGISTER, INT, FLOAT, NONE} and argument lists whose entries range over the value classes {NamedQubit, "
    "Register, int, integral float, non-integral float, non-finite float, INT Constant, integral FLOAT Constant, "
    "non-integral FLOAT Constant, Parameter of each kind, str, None, arbitrary Python objects}, with right and wrong arity, on a fresh "
    "definition and on one that has already accepted a fitting call with arguments of the same Python types (an "
    "integral float for INT): the positional call is "
    "accepted exactly when the arity matches and every argument fits its parameter's kind (reference `fits` from "
    "the property text), a rejection is a JaqalError, and the keyword call (keywords in shuffled order) gives an == "
    "statement whose parameters are in declaration order; a wrong or extra keyword and a mixed positional/keyword "
    "call are rejected with JaqalError.  idle: for random gate sets (with prepare/measure; names drawn from the "
    "pool and, with probability 1/3 each, extra active gates whose own names look like idle or stretched names: "
    "I_x, I_I_x, x_stretched, and busy gates - BusyGateDefinition - that are not prepare/measure) every active gate gets an idle twin with the same parameter list and no used qubits, and inserting idle gates at "
    "random places of an executable program leaves every subcircuit's state vector unchanged.  stretched: for "
    "gate sets of 2-6 gates (different arities; idle gates included) every stretched gate has the parent's "
    "parameters plus one trailing FLOAT `stretch` and, for drawn classical arguments and stretch factors, exactly "
    "the parent's ideal unitary; with update=True (one case in three) the result is the caller's dictionary with "
    "every stretched gate under its own name and all other entries untouched, with update=False the caller's "
    "dictionary is unchanged.  Non-trivial = a mixed-kind signature with a boundary value (integral float / "
    "integral FLOAT Constant to INT, non-finite float), or a stretched set with >= 2 gates of different arity."
    " Parameter names are a0, a1, ... and, in a third of the cases, one of self / args / kwargs / name (ordinary Jaqal identifiers that are special to Python)."
    " Value classes include numpy integers (int64, int32, uint8, an array element) and numpy floats (float32, float16, float64; fractional and integral): they fit INT / FLOAT like the Python numbers of the same value."
)
ASSUMPTIONS = [
    "a non-finite float offered to FLOAT/NONE is not judged (the property says nothing about it); offered to INT, QUBIT, REGISTER it must be rejected with JaqalError",
]

KINDS = ["QUBIT", "REGISTER", "INT", "FLOAT", "NONE"]
VCLASSES = [
    "qubit",
    "register",
    "int",
    "float-integral",
    "float",
    "float-nonfinite",
    "const-int",
    "const-float-integral",
    "const-float",
    "param-QUBIT",
    "param-REGISTER",
    "param-INT",
    "param-FLOAT",
    "param-NONE",
    "str",
    "none",
    "object",
    # numpy numbers are numbers: the generator writes them as literals and loop counts take them
    "np-int",
    "np-float32",
    "np-float32-integral",
]


def fits(kind, vc):
    """Reference: does a value of class vc fit a parameter of the given kind?  None = not judged."""
    if kind == "NONE":
        return True
    if vc == "param-NONE":
        return True
    if kind == "QUBIT":
        return vc in ("qubit", "param-QUBIT")
    if kind == "REGISTER":
        return vc in ("register", "param-REGISTER")
    if kind == "INT":
        return vc in ("int", "float-integral", "const-int", "const-float-integral", "param-INT", "np-int", "np-float32-integral")
    if kind == "FLOAT":
        if vc == "float-nonfinite":
            return None
        return vc in ("int", "float-integral", "float", "const-int", "const-float-integral", "const-float", "param-INT", "param-FLOAT", "np-int", "np-float32", "np-float32-integral")
    raise ValueError(kind)


_VALS = {}


def value(vc, variant=0):
    from jaqalpaq.core import Register, Parameter, ParamType, Constant

    if "reg" not in _VALS:
        _VALS["reg"] = Register("q", 4)
        _VALS["alias"] = Register("a", alias_from=_VALS["reg"], alias_slice=slice(1, 4, 2))
    reg, alias = _VALS["reg"], _VALS["alias"]
    if vc == "qubit":
        return [reg[1], alias[0], reg[3]][variant % 3]
    if vc == "register":
        return [reg, alias][variant % 2]
    if vc == "int":
        return [3, 0, -7, 10**20][variant % 4]
    if vc == "float-integral":
        return [2.0, -0.0, 1e15, 1e16, 2.0**63, -1e22][variant % 6]
    if vc == "float":
        return [0.5, -2.75, 1e-300][variant % 3]
    if vc == "float-nonfinite":
        return [float("nan"), float("inf"), float("-inf")][variant % 3]
    if vc == "const-int":
        return Constant("ci", [2, 0][variant % 2])
    if vc == "const-float-integral":
        return Constant("cfi", [4.0, 1e16][variant % 2])
    if vc == "const-float":
        return Constant("cf", 0.25)
    if vc.startswith("param-"):
        k = vc[6:]
        return Parameter("p" + k.lower(), None if k == "NONE" else getattr(ParamType, k))
    if vc == "np-int":
        return [np.int64(3), np.int32(-2), np.uint8(0), np.arange(5)[4]][variant % 4]
    if vc == "np-float32":
        return [np.float32(0.25), np.float64(-1.5), np.float16(0.5)][variant % 3]
    if vc == "np-float32-integral":
        return [np.float32(2.0), np.float64(-3.0)][variant % 2]
    if vc == "str":
        return "q"
    if vc == "none":
        return None
    if vc == "object":
        return [(1, 2), [], {"a": 1}, b"q", 1 + 2j][variant % 5]
    raise ValueError(vc)


def call_case(case):
    from jaqalpaq.core import GateDefinition, Parameter, ParamType, Macro
    from jaqalpaq.error import JaqalError

    sig, vcs, variant = case["sig"], case["args"], case.get("variant", 0)
    # parameter names are free: also names that are special to Python (the receiver of a method,
    # the names of catch-all arguments) - they are ordinary Jaqal identifiers
    names = [f"a{i}" for i in range(len(sig))]
    if names and variant % 3 == 0:
        names[(variant // 3) % len(names)] = ["self", "args", "kwargs", "name"][(variant // 3) % 4]
    params = [Parameter(names[i], None if k == "NONE" else getattr(ParamType, k)) for i, k in enumerate(sig)]
    cls = Macro if case.get("macro") else GateDefinition
    gd = cls("gt", params)
    vals = [value(vc, variant + i) for i, vc in enumerate(vcs)]
    judged = [fits(k, vc) for k, vc in zip(sig, vcs)]
    arity_ok = len(sig) == len(vcs)
    if arity_ok and any(j is None for j in judged) and all(j is not False for j in judged):
        raise Skip()
    expect = arity_ok and all(j is True for j in judged)
    desc = f"signature {sig} (parameters {names}), arguments {vcs} = {[repr(v) for v in vals]}"
    if case.get("warm"):
        # the definition has been USED before: a fitting call whose arguments have the same Python
        # types as values that do not fit (an integral float for INT).  A definition checks every
        # call; it does not learn from the calls it accepted.
        st_, r0 = guard(gd, *[value(_WARM[k], 7 + i) for i, k in enumerate(sig)], what="gate call (fitting, first use)")
        if st_ == "err":
            raise Violation("fitting-call-rejected", f"first use of the definition, {[_WARM[k] for k in sig]}: {r0}\n{desc}", where="first-use")
        desc += " (the definition had accepted a fitting call before)"
    st_, r = guard(gd, *vals, what="gate call")
    if expect and st_ == "err":
        raise Violation("fitting-call-rejected", f"{r}\n{desc}", where=_first_bad(sig, vcs, True))
    if not expect and st_ == "ok":
        raise Violation("unfitting-call-accepted", desc, where=_first_bad(sig, vcs, False))
    if expect:
        order = list(range(len(sig)))
        order = order[variant % max(1, len(order)) :] + order[: variant % max(1, len(order))]
        kwargs = {names[i]: vals[i] for i in reversed(order)}
        if kwargs:
            try:
                st2, r2 = guard(gd, what="keyword call", **kwargs)
            except TypeError as e:
                # raised by the interpreter while binding the call (no frame of the library on
                # the traceback): the definition's own signature is in the way of a parameter name
                raise Violation("keyword-call-rejected", f"TypeError: {e}\n{desc}", where="TypeError")
            if st2 == "err":
                raise Violation("keyword-call-rejected", f"{r2}\n{desc}")
            if not (r2 == r) or list(r2.parameters) != names or list(r.parameters) != list(r2.parameters):
                raise Violation("keyword-call-differs", f"positional {r} / keyword {r2} (order {list(r2.parameters)})\n{desc}")
            for i in range(len(sig)):
                if r2.parameters[names[i]] is not vals[i]:
                    raise Violation("keyword-call-differs", f"parameter {names[i]}\n{desc}")
        # misuse of the keyword form must be rejected with JaqalError
        if len(sig) >= 1:
            wrong = dict(kwargs)
            wrong["nosuch"] = wrong.pop(names[0])
            st3, r3 = guard(gd, what="keyword call with a wrong name", **wrong)
            if st3 == "ok":
                raise Violation("bad-keyword-accepted", f"keywords {list(wrong)}\n{desc}")
            extra = dict(kwargs)
            extra["nosuch"] = 1
            st3, r3 = guard(gd, what="keyword call with an extra name", **extra)
            if st3 == "ok":
                raise Violation("bad-keyword-accepted", f"keywords {list(extra)}\n{desc}")
        if len(sig) >= 2:
            st3, r3 = guard(gd, vals[0], what="mixed positional/keyword call", **{names[i]: vals[i] for i in range(1, len(sig))})
            if st3 == "ok":
                raise Violation("mixed-call-accepted", desc)
    boundary = any(vc in ("float-integral", "const-float-integral", "float-nonfinite", "param-NONE") for vc in vcs) and len(set(sig)) >= 2
    return {"nontrivial": boundary, "classes": ["arity:%+d" % (len(vcs) - len(sig)), "expect:" + ("accept" if expect else "reject")] + (["definition-used-before"] if case.get("warm") else []), "key": repr((sig, vcs, case.get("macro"), bool(case.get("warm")))), "sample": {"signature": sig, "arguments": vcs, "accepted": expect}}


# per kind, a fitting value class of the Python type that also carries unfitting values
_WARM = {"QUBIT": "qubit", "REGISTER": "register", "INT": "float-integral", "FLOAT": "float", "NONE": "float"}


def _first_bad(sig, vcs, want):
    if len(sig) != len(vcs):
        return "arity"
    for k, vc in zip(sig, vcs):
        if fits(k, vc) is not True:
            return f"{k}<-{vc}"
    return "all-fit"


def _enum_calls(tier):
    top = 3 if tier == "thorough" else 2
    for n in range(0, top + 1):
        for sig in itertools.product(KINDS, repeat=n):
            for vcs in itertools.product(VCLASSES, repeat=n):
                yield {"sig": list(sig), "args": list(vcs), "variant": (len(sig) * 7 + sum(map(len, vcs))) % 5}
                if 1 <= n <= 2:
                    # the same call on a definition that has been used (fittingly) before
                    yield {"sig": list(sig), "args": list(vcs), "variant": (len(sig) * 7 + sum(map(len, vcs))) % 5, "warm": True}
            # wrong arity
            for m in (n - 2, n - 1, n + 1, n + 2):
                if m < 0:
                    continue
                yield {"sig": list(sig), "args": ["int", "qubit", "float", "register", "param-NONE"][:m], "variant": 1}


def _random_call(ch):
    n = ch.int(0, 4)
    sig = [ch.pick(KINDS) for _ in range(n)]
    m = n if ch.int(0, 3) else max(0, n + ch.pick([-2, -1, 1, 2]))
    vcs = []
    for i in range(m):
        if i < n and ch.int(0, 2):
            good = [vc for vc in VCLASSES if fits(sig[i], vc)]
            vcs.append(ch.pick(good))
        else:
            vcs.append(ch.pick(VCLASSES))
    return {"sig": sig, "args": vcs, "variant": ch.int(0, 11), "macro": ch.int(0, 3) == 0, "warm": m == n and n > 0 and ch.int(0, 2) == 0}


# ------------------------------------------------------------------------------ idle gates


def _insert_idles(stmts, ch, prog_reg, n):
    out = []
    for s in stmts:
        if s[0] == "seq":
            s = ["seq", _insert_idles(s[1], ch, prog_reg, n)]
        elif s[0] == "sub":
            s = ["sub", s[1], _insert_idles(s[2], ch, prog_reg, n)]
        elif s[0] == "loop" and s[2][0] == "seq":
            s = ["loop", s[1], ["seq", _insert_idles(s[2][1], ch, prog_reg, n)]]
        out.append(s)
    return out


def idle_case(case):
    from jaqalpaq.core.gatedef import add_idle_gates, IdleGateDefinition
    from jaqalpaq.emulator import run_jaqal_circuit
    from .c03 import ref_states

    gate_seed = case["gate_seed"]
    base = gates.make_gates(gate_seed, idle=False)
    # active gates whose NAMES resemble derived ones are still active gates
    from jaqalpaq.core import GateDefinition, Parameter, ParamType

    ech = gen.Chooser(gate_seed * 31 + 7)
    for extra in ("I_1q", "I_I_rot", "I_", "Z_stretched"):
        if ech.int(0, 2) == 0:
            kinds = [ech.pick(["q", "f", "i"]) for _ in range(ech.int(0, 3))]
            m = np.eye(2 ** kinds.count("q"), dtype=complex)
            base[extra] = GateDefinition(extra, [Parameter(f"a{i}", gates.PTYPE[k]) for i, k in enumerate(kinds)], ideal_unitary=(lambda *a, m=m: m))
    # ... and so are gates that cannot run beside anything (a global rotation, a wait): "every
    # active gate other than prepare/measure" has its idle twin
    from jaqalpaq.core.gatedef import BusyGateDefinition

    for extra in ("GlobalR", "wait_all", "prepare_some"):
        if ech.int(0, 2) == 0:
            kinds = [ech.pick(["f", "i"]) for _ in range(ech.int(0, 2))]
            base[extra] = BusyGateDefinition(extra, [Parameter(f"a{i}", gates.PTYPE[k]) for i, k in enumerate(kinds)])
    st_, withidle = guard(add_idle_gates, base, what="add_idle_gates")
    if st_ == "err":
        raise Violation("add-idle-gates-raised", str(withidle))
    for name, g in base.items():
        if withidle.get(name) is not g:
            raise Violation("active-gate-lost", name)
        if name in ("prepare_all", "measure_all"):
            if "I_" + name in withidle:
                raise Violation("idle-for-prepare-measure", name)
            continue
        idle = withidle.get("I_" + name)
        if idle is None:
            raise Violation("idle-twin-missing", name)
        if not (idle.parameters == g.parameters):
            raise Violation("idle-signature", f"{name}: {idle.parameters} != {g.parameters}")
        if list(idle.used_qubits) != []:
            raise Violation("idle-uses-qubits", f"{name}: {list(idle.used_qubits)}")
        if idle.ideal_unitary is not None:
            raise Violation("idle-has-unitary", name)
    # metamorphic: sprinkle idle gates into an executable program
    prog = case["prog"]
    try:
        r = ref_states(prog, {}, gate_seed)
    except Invalid:
        raise Skip()
    if r is None:
        raise Skip()
    n, nsub, visits, tree = r
    if refexec.unrolled_size(tree) > 1500:
        raise Skip()
    ch = gen.Chooser(case["idle_seed"])
    regname = prog["reg"][0]
    inserted = [0]

    def sprinkle(stmts, inside):
        out = []
        for s in stmts:
            if s[0] == "seq":
                s = ["seq", sprinkle(s[1], inside)]
            elif s[0] == "sub":
                s = ["sub", s[1], sprinkle(s[2], True)]
            elif s[0] == "loop" and s[2][0] == "seq":
                s = ["loop", s[1], ["seq", sprinkle(s[2][1], inside)]]
            out.append(s)
            if inside and ch.int(0, 2) == 0:
                gname = ch.pick([g for g in gates.KINDS if g not in ("prepare_all", "measure_all")])
                args = []
                qs = ch.perm(n)
                for k in gates.KINDS[gname]:
                    if k == "q":
                        if not qs:
                            args = None
                            break
                        args.append(["ix", regname, qs.pop()])
                    else:
                        args.append(["n", ch.int(-3, 9)])
                if args is not None:
                    out.append(["g", "I_" + gname, args])
                    inserted[0] += 1
        return out

    p2 = dict(prog)
    p2["body"] = sprinkle(prog["body"], False)
    if inserted[0] == 0:
        return {"nontrivial": False, "classes": ["no-idle-inserted"], "key": repr(case)}
    nat = gates.make_gates(gate_seed)
    states = []
    for p in (prog, p2):
        text = render.to_text(p)
        st_, c = guard(parse, text, inject_pulses=nat, what="parse")
        if st_ == "err":
            raise Violation("idle-program-rejected", f"{c}\n--- program:\n{text}")
        np.random.seed(3)
        st_, res = guard(run_jaqal_circuit, c, what="run_jaqal_circuit")
        if st_ == "err":
            raise Violation("idle-program-rejected", f"{res}\n--- program:\n{text}")
        states.append([np.asarray(sc.state_vector) for sc in res.subcircuits])
    if len(states[0]) != len(states[1]) or any(float(np.max(np.abs(a - b))) > 1e-12 for a, b in zip(*states)):
        raise Violation("idle-gate-changes-state", f"--- program:\n{render.to_text(prog)}\n--- with idle gates:\n{render.to_text(p2)}")
    return {"nontrivial": True, "classes": ["idle-inserted:%s" % min(inserted[0], 5)], "key": render.to_text(p2), "sample": {"with_idle_gates": render.to_text(p2)}}


# ------------------------------------------------------------------------------ stretched gates


def stretch_case(case):
    from jaqalpaq.core.stretch import stretched_gates
    from jaqalpaq.core import ParamType
    from jaqalpaq.core.gatedef import IdleGateDefinition

    names = case["names"]
    base = gates.make_gates(case["gate_seed"], idle=case["with_idle"], names=names)
    base = {k: v for k, v in base.items() if k not in ("prepare_all", "measure_all")}
    order = case.get("order", "as-built")
    if order == "active-then-idle":
        base = {**{k: v for k, v in base.items() if not k.startswith("I_")}, **{k: v for k, v in base.items() if k.startswith("I_")}}
    elif order == "idle-then-active":
        base = {**{k: v for k, v in base.items() if k.startswith("I_")}, **{k: v for k, v in base.items() if not k.startswith("I_")}}
    elif order == "reversed":
        base = dict(reversed(list(base.items())))
    if not case["with_idle"] is False:
        pass
    suffix = case["suffix"]
    suffix_arg = suffix
    suffix = suffix or ""

    def fitting(params):
        out = []
        for i, p_ in enumerate(params):
            k = p_.kind
            out.append(value("qubit", i) if k == ParamType.QUBIT else value("float", i) if k == ParamType.FLOAT else value("int", i) if k == ParamType.INT else value("register", i))
        return out

    if case.get("call_parents_first"):
        # a definition that has already been USED when the variants are derived
        for name, g in base.items():
            st_, r = guard(g, *fitting(list(g.parameters)), what="parent gate call")
            if st_ == "err":
                raise Violation("fitting-call-rejected", f"parent {name}: {r}", where="parent")
    # the documentation says the KEYS of the dictionary are ignored (names come from the gates)
    keyed = dict(base)
    if case.get("odd_keys"):
        keyed = {("k%d_" % i) + k.lower(): v for i, (k, v) in enumerate(base.items())}
    update = bool(case.get("update"))
    ukw = {"update": True} if update else {}
    before = dict(keyed)
    st_, sg = guard(stretched_gates, keyed, suffix=suffix_arg, what="stretched_gates", **ukw) if suffix_arg is not None or case["gate_seed"] % 2 else guard(stretched_gates, keyed, what="stretched_gates", **ukw)
    if st_ == "err":
        raise Violation("stretched-gates-raised", f"{sg}\nnames {names}")
    if update:
        # documented: "return gates after updating with the new stretched gates" - the caller's
        # dictionary, every stretched gate under its own name, everything else as it was
        if sg is not keyed:
            raise Violation("update-returns-other-dictionary", f"{type(sg).__name__}")
        derived = {name + suffix for name in base} | {(n_[2:] if isinstance(g_, IdleGateDefinition) else n_) + suffix for n_, g_ in base.items()}
        for k_, v_ in before.items():
            if k_ not in derived and sg.get(k_) is not v_:
                raise Violation("update-lost-entry", f"{k_!r}: {sg.get(k_)!r}")
    elif keyed != before or list(keyed) != list(before):
        raise Violation("gates-dictionary-modified", f"update=False, yet {list(before)} became {list(keyed)}")
    arities = set()
    ch = gen.Chooser(case["arg_seed"])
    for name, g in base.items():
        if isinstance(g, IdleGateDefinition):
            continue
        s = sg.get(name + suffix)
        if s is None:
            raise Violation("stretched-gate-missing", f"{name}{suffix} not in {list(sg)}")
        if s.name != name + suffix:
            raise Violation("stretched-gate-name", f"{s.name}")
        pp = list(g.parameters)
        sp = list(s.parameters)
        if len(sp) != len(pp) + 1 or not all(a == b for a, b in zip(pp, sp)) or sp[-1].kind != ParamType.FLOAT:
            raise Violation("stretched-signature", f"{name}: {sp} vs parent {pp}")
        if len(list(g.parameters)) != len(pp):
            raise Violation("parent-modified", name)
        arities.add(len(pp))
        # the variant checks its calls like any definition: the stretch factor is a FLOAT
        good = fitting(pp)
        for factor in (2.0, 3, value("const-float", 0)):
            st_, r = guard(s, *good, factor, what="stretched gate call")
            if st_ == "err":
                raise Violation("fitting-call-rejected", f"{name}{suffix}{tuple(good)} stretch={factor!r}: {r}", where="stretched")
        for bad in (value("qubit", 1), "x", None, value("register", 0)):
            st_, r = guard(s, *good, bad, what="stretched gate call")
            if st_ == "ok":
                raise Violation("unfitting-call-accepted", f"{name}{suffix}: stretch factor {bad!r} accepted (parents called first: {bool(case.get('call_parents_first'))})", where="stretched")
        st_, r = guard(s, *good, what="stretched gate call without factor")
        if st_ == "ok":
            raise Violation("unfitting-call-accepted", f"{name}{suffix} called without its stretch factor", where="stretched-arity")
        if g.ideal_unitary is None:
            if s.ideal_unitary is not None:
                raise Violation("stretched-unitary-invented", name)
            continue
        ncl = sum(1 for p in pp if p.classical)
        for _ in range(3):
            args = [ch.pick([0, 1, -2, 0.5, 3.25, 7]) for _ in range(ncl)]
            factor = ch.pick([1.0, 2.0, 0.5, 10, 1e-3])
            want = g.ideal_unitary(*args)
            st_, got = guard(s.ideal_unitary, *args, factor, what="stretched ideal_unitary")
            if st_ == "err":
                raise Violation("stretched-unitary-raised", f"{name}{suffix}({args}, stretch={factor}): {got}")
            if not isinstance(got, np.ndarray) or got.shape != want.shape or not np.array_equal(got, want):
                raise Violation("stretched-unitary-differs", f"{name}{suffix}({args}, stretch={factor}) is not the parent's {name}({args}); gate set {list(base)}")
    for name, g in base.items():
        if isinstance(g, IdleGateDefinition):
            par = name[2:]
            if par + suffix not in sg:
                raise Violation("stretched-gate-missing", f"parent of idle gate {name}: {par}{suffix} not in {list(sg)}")
            idle_s = sg.get(name + suffix)
            want_params = list(g.parameters)
            if idle_s is not None and (idle_s.ideal_unitary is not None or not isinstance(idle_s, IdleGateDefinition)):
                raise Violation("stretched-idle", f"{name}{suffix} is not an idle gate any more: {type(idle_s).__name__}, ideal_unitary {idle_s.ideal_unitary!r}")
            if idle_s is None or list(idle_s.used_qubits) != [] or len(list(idle_s.parameters)) != len(want_params) + 1 or not all(a == b for a, b in zip(want_params, idle_s.parameters)):
                raise Violation("stretched-idle", f"{name}{suffix}: {idle_s} (parent idle gate: {want_params}; gate order {list(base)})")
    nt = len(arities) >= 2 and len(base) >= 2
    return {"nontrivial": nt, "classes": ["gates:%d" % len(base), "with-idle:%s" % case["with_idle"]] + (["update=True"] if update else []), "key": repr((names, suffix, case["with_idle"], case["gate_seed"] % 7, update)), "sample": {"gates": list(base), "suffix": suffix}}


def _stretch_gen(ch):
    pool = [g for g in gates.KINDS if g not in ("prepare_all", "measure_all")]
    return {
        "names": ch.sample(pool, ch.int(1, 6)),
        "gate_seed": ch.int(0, 10**6),
        "with_idle": ch.bool(),
        "suffix": ch.pick(["_stretched", "_s", "X", None]),  # None (the default): the stretched gates keep their parents' names
        "order": ch.pick(["as-built", "active-then-idle", "idle-then-active", "reversed"]),
        "arg_seed": ch.int(0, 10**6),
        "call_parents_first": ch.bool(),
        "odd_keys": ch.int(0, 2) == 0,
        "update": ch.int(0, 2) == 0,
    }


def _idle_gen(ch):
    c = gen_emul.make_emulable(ch, max_reg=4, with_env=False)
    return {"prog": c["prog"], "gate_seed": c["gate_seed"], "idle_seed": ch.int(0, 10**6)}


def parts():
    return [
        Part("calls-enumerated", None, call_case, quick=0, thorough=0, exhaustive=_enum_calls, shards=8),
        Part("calls-random", gen.cases(_random_call), call_case, quick=3000, thorough=60000),
        Part("idle", gen.cases(_idle_gen), idle_case, quick=800, thorough=15000, min_nontrivial=0.1),
        Part("stretched", gen.cases(_stretch_gen), stretch_case, quick=600, thorough=10000, min_nontrivial=0.05),
    ]
