"""C12 — only well-bracketed prepare/measure programs are executed."""

import numpy as np

from ..common import Violation, Skip, guard, parse, render, Ref, Invalid
from ..model import walk
from ..harness import Part, step_budget
from .. import gen, gates, gen_emul, refexec, refsim
from .c03 import ref_states, TOL

PROPERTY = "C12"
RULE = (
    "Arbitrary (unfiltered) placements of prepare_all, measure_all, subcircuit blocks and X / idle gates over "
    "nested sequential blocks, single-branch parallel blocks, loops with counts 0, 1, 2, 3 and parameterless macros "
    "(macros may contain prepare/measure/subcircuits); references valid, parallel blocks single-branch.  The "
    "reference reads the macro-expanded program in flat order and applies the three rules of the property text; "
    "accepted => run_jaqal_circuit returns, the number of subcircuits equals the reference count (a trailing open "
    "prepare yields none) and every visited subcircuit's state equals the reference state (so gates before a "
    "repeated prepare_all are discarded); rejected => JaqalError whose message names the rule (prepare/measure, or "
    "'loop' for the loop rule); a hang (deterministic step budget) or any other exception is a violation.  "
    "Programs with loops are also built through circuitbuilder.build with numpy.int64 loop counts and must get the same verdict.  "
    "Part backend-history: 2-4 such programs are run in order through ONE backend object "
    "(run_jaqal_circuit(c, backend=b)); each must get the verdict and subcircuit count the reference gives it alone "
    "(non-trivial = an ill-bracketed program after one that was rejected or that ended in an open prepare_all).  "
    "Non-trivial = the verdict depends on a loop count or on structure at nesting depth >= 2 (re-evaluated with all "
    "counts set to 1 / to 2). distinct = program text."
)
ASSUMPTIONS = ["gate set: X, I_X, prepare_all, measure_all from vlib/gates.py on a 2-qubit register"]


def _with_counts(tree, k):
    tag = tree[0]
    if tag == "g":
        return tree
    if tag == "loop":
        return ("loop", k, _with_counts(tree[2], k), tree[3])
    if tag == "sub":
        return ("sub", tree[1], tuple(_with_counts(x, k) for x in tree[2]), tree[3])
    return (tag, tuple(_with_counts(x, k) for x in tree[1]), tree[2])


def _depth(tree):
    tag = tree[0]
    if tag == "g":
        return 0
    if tag == "loop":
        return 1 + _depth(tree[2])
    kids = tree[2] if tag == "sub" else tree[1]
    return 1 + max([_depth(k) for k in kids] or [0])


def check(case):
    from jaqalpaq.emulator import run_jaqal_circuit
    from jaqalpaq.error import JaqalError

    prog = case["prog"]
    text = render.to_text(prog)
    try:
        ref = Ref(prog)
        ref.check_static()
        n = ref.reg_size()
        tree = refexec.expand(ref)
    except Invalid:
        raise Skip()
    if refexec.static_errors(tree, n):
        raise Skip()
    if refexec.unrolled_size(tree) > 3000:
        raise Skip()
    acc = refexec.accept(tree)
    natives = gates.make_gates(0)
    st_, c = guard(parse, text, inject_pulses=natives, what="parse")
    if st_ == "err":
        raise Violation("parse-rejected", f"{c}\n--- program:\n{text}")
    np.random.seed(7)
    with step_budget(2000 * (refexec.unrolled_size(tree) + 50) + 10**6):
        st_, res = guard(run_jaqal_circuit, c, what="run_jaqal_circuit")
    verdicts = {refexec.accept(_with_counts(tree, k))[0] for k in (1, 2)}
    depends_on_counts = len(verdicts) > 1 or (refexec.accept(_with_counts(tree, 1))[0] != acc[0])
    classes = ["ref:" + (acc[0] if acc[0] == "ok" else "reject:" + acc[1])]
    if depends_on_counts:
        classes.append("verdict-depends-on-loop-count")
    if acc[0] == "ok":
        _ok, nsub, sites = acc
        if st_ == "err":
            raise Violation("rejected-well-bracketed-program", f"{res}\n--- program:\n{text}", where=_msgkey(str(res)))
        if len(res.subcircuits) != nsub:
            raise Violation("subcircuit-count", f"emulator {len(res.subcircuits)} != reference {nsub}\n--- program:\n{text}")
        r = ref_states(prog, {}, 0)
        if _zero_loop_around_bracket(tree):
            # flat-order reading (this property) and unrolled reading (C03) of "the last
            # prepare_all" differ when a prepare sits in a loop that runs zero times: the
            # count above is still judged, the state is not
            classes.append("zero-loop-around-bracket")
            r = None
        if r is not None:
            _n, _nsub, visits, _tree = r
            seen = {}
            for idx, state in visits:
                if not isinstance(state, str):
                    seen.setdefault(idx, state)
            for idx, state in seen.items():
                want = refsim.flat(state)
                got = np.asarray(res.subcircuits[idx].state_vector)
                if got.shape != want.shape or float(np.max(np.abs(got - want))) > TOL:
                    raise Violation("subcircuit-state", f"subcircuit {idx}: emulator {np.round(got,3)} reference {np.round(want,3)}\n--- program:\n{text}")
    else:
        rule = acc[1]
        if st_ == "ok":
            raise Violation("accepted-ill-bracketed-program", f"reference rejects ({rule}); emulator returned {len(res.subcircuits)} subcircuits\n--- program:\n{text}", where=rule)
        msg = str(res)
        if rule == "loop-closes-outer-subcircuit":
            ok = "loop" in msg
        else:
            ok = "prepare_all" in msg or "measure_all" in msg
        if not ok:
            raise Violation("error-does-not-name-rule", f"rule {rule}: message {msg!r}\n--- program:\n{text}", where=rule)
    if any(x[0] == "loop" for x in walk(prog["body"] + [m["body"] for m in prog["macros"]])):
        # the same program built through circuitbuilder.build, its loop counts numpy integers (what
        # a computed count is): an integer is an integer, the verdict is the same
        from jaqalpaq.core.circuitbuilder import build

        def conv(x):
            if isinstance(x, list):
                if x and x[0] == "loop":
                    return ["loop", np.int64(x[1]), conv(x[2])]
                return [conv(v) for v in x]
            return x

        st_b, cb = guard(build, conv(render.to_sexpr(prog)), inject_pulses=natives, what="build(sexpr, numpy loop counts)")
        if st_b == "ok":
            np.random.seed(7)
            with step_budget(2000 * (refexec.unrolled_size(tree) + 50) + 10**6):
                st_b, resb = guard(run_jaqal_circuit, cb, what="run_jaqal_circuit(built circuit)")
            if acc[0] == "ok" and (st_b == "err" or len(resb.subcircuits) != acc[1]):
                raise Violation("built-circuit:rejected-or-miscounted", f"{resb if st_b == 'err' else len(resb.subcircuits)} (reference: {acc[1]} subcircuits)\n--- program (built from its S-expression, loop counts numpy.int64):\n{text}")
            if acc[0] != "ok" and st_b == "ok":
                raise Violation("built-circuit:accepted-ill-bracketed-program", f"reference rejects ({acc[1]}); emulator returned {len(resb.subcircuits)} subcircuits\n--- program (built from its S-expression, loop counts numpy.int64):\n{text}", where=acc[1])
            classes.append("also-built-with-numpy-loop-counts")
    nt = depends_on_counts or _depth(tree) >= 3
    return {"nontrivial": nt, "classes": classes, "key": text, "sample": {"text": text, "reference": acc[0] if acc[0] == "ok" else acc[1]}}


def history(case):
    """2-4 programs through ONE backend object: each verdict is the reference's for that program
    alone, whatever the earlier ones left open or were rejected for."""
    from jaqalpaq.emulator import run_jaqal_circuit
    from jaqalpaq.emulator.unitary import UnitarySerializedEmulator

    natives = gates.make_gates(0)
    backend = UnitarySerializedEmulator()
    verdicts, texts = [], []
    open_before = False
    interesting = False
    for prog in case["progs"]:
        text = render.to_text(prog)
        try:
            ref = Ref(prog)
            ref.check_static()
            n = ref.reg_size()
            tree = refexec.expand(ref)
        except Invalid:
            raise Skip()
        if refexec.static_errors(tree, n) or refexec.unrolled_size(tree) > 1500:
            raise Skip()
        acc = refexec.accept(tree)
        st_, c = guard(parse, text, inject_pulses=natives, what="parse")
        if st_ == "err":
            raise Skip()
        np.random.seed(7)
        with step_budget(2000 * (refexec.unrolled_size(tree) + 50) + 10**6):
            st_, res = guard(run_jaqal_circuit, c, backend=backend, what="run_jaqal_circuit(backend=one object)")
        texts.append(text)
        hist = "\n--- then:\n".join(texts)
        if acc[0] == "ok":
            if st_ == "err":
                raise Violation("history:rejected-well-bracketed-program", f"program {len(texts)} of the history: {res}\n--- programs, in order, on one backend object:\n{hist}", where=_msgkey(str(res)))
            if len(res.subcircuits) != acc[1]:
                raise Violation("history:subcircuit-count", f"program {len(texts)}: emulator {len(res.subcircuits)} != reference {acc[1]}\n--- programs:\n{hist}")
        elif st_ == "ok":
            raise Violation("history:accepted-ill-bracketed-program", f"program {len(texts)} of the history: reference rejects ({acc[1]}); emulator returned {len(res.subcircuits)} subcircuits\n--- programs, in order, on one backend object:\n{hist}", where=acc[1])
        if open_before and acc[0] != "ok":
            interesting = True
        verdicts.append(acc[0] if acc[0] == "ok" else acc[1])
        # what this program leaves behind: a rejection midway, or a trailing open prepare_all
        open_before = open_before or acc[0] != "ok" or _ends_open(tree)
    classes = ["history:" + ">".join("ok" if v == "ok" else "rej" for v in verdicts)]
    if interesting:
        classes.append("ill-bracketed-after-open-or-rejected")
    return {"nontrivial": interesting, "classes": classes, "key": "\n==\n".join(texts), "sample": {"texts": texts, "reference": verdicts}}


def _ends_open(tree):
    last = None
    for g in _flat_gates(tree):
        if g in ("prepare_all", "measure_all"):
            last = g
    return last == "prepare_all"


def _flat_gates(tree):
    tag = tree[0]
    if tag == "g":
        yield tree[1]
    elif tag == "loop":
        yield from _flat_gates(tree[2])
    elif tag == "sub":
        yield "prepare_all"
        for k in tree[2]:
            yield from _flat_gates(k)
        yield "measure_all"
    else:
        for k in tree[1]:
            yield from _flat_gates(k)


def _zero_loop_around_bracket(tree, inside=False):
    tag = tree[0]
    if tag == "g":
        return inside and tree[1] in ("prepare_all", "measure_all")
    if tag == "loop":
        return _zero_loop_around_bracket(tree[2], inside or tree[1] == 0)
    if tag == "sub":
        return inside or any(_zero_loop_around_bracket(k, inside) for k in tree[2])
    return any(_zero_loop_around_bracket(k, inside) for k in tree[1])


def _msgkey(msg):
    if "loops" in msg:
        return "loop-rule"
    if "must follow a measure" in msg or "must follow a" in msg and "gates" not in msg:
        return "measure-rule"
    if "gates must follow" in msg:
        return "gate-rule"
    if "Parallel" in msg:
        return "parallel"
    return "other"


def parts():
    return [
        Part("brackets", gen.cases(lambda ch: gen_emul.make_pm(ch)), check, quick=6000, thorough=150000, min_nontrivial=0.2),
        Part("backend-history", gen.cases(lambda ch: {"progs": [gen_emul.make_pm(ch)["prog"] for _ in range(ch.int(2, 4))]}), history, quick=2500, thorough=60000, min_nontrivial=0.1),
    ]
