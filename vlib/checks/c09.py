"""C09 — subcircuit blocks mean prepare_all ... measure_all."""

import copy

import numpy as np

from ..common import Violation, Skip, guard, parse, extract, render, same_meaning, show, Ref, Invalid, prog_features
from ..harness import Part, step_budget
from .. import gen, gates, gen_emul, refexec
from ..model import walk

PROPERTY = "C09"
RULE = (
    "structural: grammar-generated programs with subcircuit blocks at every legal position (top level, in loops, in "
    "sequential blocks, in macro bodies), with/without counts (literal, let, parameter), anonymous or native gates, "
    "and a drawn choice of bounding definitions (default names, caller-supplied names, caller-supplied "
    "GateDefinition objects): s = expand_subcircuits(c, ...) must contain no subcircuit block anywhere (macro "
    "bodies included); its extracted meaning must equal the reference meaning of the program with every "
    "`subcircuit k { B }` rewritten to `{ prepare; B; measure }`; the bounding gates' definitions must BE the "
    "native ones when present resp. the caller's; constants, registers, pulse imports, macro names unchanged; a "
    "second expansion of the same circuit object with the other choice of bounding gates gives that choice's "
    "result.  "
    "behavioural (differential between two spellings): an executable program is rendered once with subcircuit "
    "blocks and once with them spelled out as prepare_all; B; measure_all; both texts are parsed and run: same "
    "number of subcircuits, same probabilities (1e-12), same readout attribution; parse_jaqal_output_list on both "
    "with the same drawn outputs gives the same readouts and frequencies.  bracket-mix: the same differential without "
    "consulting the reference: explicit prepare_all / measure_all gates are injected into subcircuit bodies (first, "
    "last, middle, nested sequential block); both spellings must be rejected alike or give the same subcircuits, "
    "distributions and readout attribution.  Non-trivial = a subcircuit inside a loop "
    "or macro, or mixed with an explicit prepare/measure section. distinct = (text, mode)."
)
ASSUMPTIONS = ["behavioural part: programs the reference accepts; outcomes are compared by attribution and distribution, not by sampled value"]

_NATIVE_NAMES = ["U1", "R1", "R2", "N1", "U2", "P2", "M2", "U3"]
_NAT = {}


def natives(extra=False):
    if extra not in _NAT:
        g = gates.make_gates(7, idle=True, names=_NATIVE_NAMES)
        if extra:
            from jaqalpaq.core import GateDefinition

            g = dict(g)
            g["prep"] = GateDefinition("prep")
            g["meas"] = GateDefinition("meas")
        _NAT[extra] = g
    return _NAT[extra]


def desugar_prog(prog, pname="prepare_all", mname="measure_all"):
    def rec(stmts):
        out = []
        for s in stmts:
            if s[0] == "sub":
                out.append(["g", pname, []])
                out.extend(rec(s[2]))
                out.append(["g", mname, []])
            elif s[0] in ("seq", "par"):
                out.append([s[0], rec(s[1])])
            elif s[0] == "loop":
                out.append(["loop", s[1], [s[2][0], rec(s[2][1])]])
            else:
                out.append(s)
        return out

    p = copy.deepcopy(prog)
    p["body"] = rec(p["body"])
    for m in p["macros"]:
        m["body"] = [m["body"][0], rec(m["body"][1])]
    return p


def _sub_context(prog):
    ctx = set()

    def rec(stmts, inside):
        for s in stmts:
            if s[0] == "sub":
                ctx.update(inside or {"top"})
                rec(s[2], inside)
            elif s[0] in ("seq", "par"):
                rec(s[1], inside | {"block"})
            elif s[0] == "loop":
                rec([s[2]], inside | {"loop"})

    rec(prog["body"], frozenset())
    for m in prog["macros"]:
        rec([m["body"]], frozenset({"macro"}))
    explicit = any(s[0] == "g" and s[1] in ("prepare_all", "measure_all") for s in walk(prog["body"]))
    return ctx, explicit


def structural(case):
    from jaqalpaq.core.algorithm import expand_subcircuits
    from jaqalpaq.core.block import BlockStatement
    from jaqalpaq.core.gate import GateStatement
    from jaqalpaq.core import GateDefinition

    prog, mode, defs = case["prog"], case["mode"], case["defs"]
    text = render.to_text(prog)
    pname, mname = ("prepare_all", "measure_all") if defs in ("default", "objects-native-named") else ("prep", "meas")
    if defs in ("only-prepare", "only-prepare-object"):
        pname, mname = "prep", "measure_all"
    elif defs in ("only-measure", "only-measure-object"):
        pname, mname = "prepare_all", "meas"
    try:
        ref = Ref(prog)
        ref.validate()
        m_ref = Ref(desugar_prog(prog, pname, mname)).meaning()
    except Invalid:
        raise Skip()
    kw = {}
    nat = None
    if mode == "native":
        nat = natives(extra=(defs == "names-native"))
        kw["inject_pulses"] = nat
    st_, c = guard(parse, text, what="parse", **kw)
    if st_ == "err":
        raise Skip()
    try:
        if not same_meaning(extract.meaning(c), ref.meaning()):
            raise Skip()
    except extract.ExtractError:
        raise Skip()
    args = {}
    pobj = mobj = None
    if defs in ("names", "names-native"):
        args = {"prepare_def": "prep", "measure_def": "meas"}
    elif defs == "objects":
        pobj, mobj = GateDefinition("prep"), GateDefinition("meas")
        args = {"prepare_def": pobj, "measure_def": mobj}
    elif defs == "objects-native-named":
        # the caller's OWN definitions, which happen to carry the default names
        pobj, mobj = GateDefinition("prepare_all"), GateDefinition("measure_all")
        args = {"prepare_def": pobj, "measure_def": mobj}
    elif defs == "only-prepare":
        args = {"prepare_def": "prep"}
    elif defs == "only-measure":
        args = {"measure_def": "meas"}
    elif defs == "only-prepare-object":
        pobj = GateDefinition("prep")
        args = {"prepare_def": pobj}
    elif defs == "only-measure-object":
        mobj = GateDefinition("meas")
        args = {"measure_def": mobj}
    st_, s = guard(expand_subcircuits, c, what="expand_subcircuits", **args)
    if st_ == "err":
        raise Violation("rejected-valid-program", f"{s}\n--- program:\n{text}")
    left = extract.find_objects(s, lambda x: isinstance(x, BlockStatement) and x.subcircuit)
    if left:
        where = "macro-body" if not extract.find_objects(s, lambda x: isinstance(x, BlockStatement) and x.subcircuit, include_macros=False) else "body"
        raise Violation("subcircuit-block-left", f"{len(left)} left ({where})\n--- program:\n{text}", where=where)
    try:
        m_s = extract.meaning(s)
    except extract.ExtractError as e:
        raise Violation("result-unresolvable", f"{e}\n--- program:\n{text}")
    if not same_meaning(m_ref, m_s):
        raise Violation("meaning", f"[{defs}] expected {show(m_ref)}\ngot      {show(m_s)}\n--- program:\n{text}")
    # identity of the bounding definitions
    bound = extract.find_objects(s, lambda x: isinstance(x, GateStatement) and x.name in (pname, mname), include_header=False)
    for g in bound:
        want = None
        if g.name == pname and pobj is not None:
            want = pobj
        elif g.name == mname and mobj is not None:
            want = mobj
        elif nat is not None and g.name in nat:
            want = nat[g.name]  # the side the caller left out: the circuit's native definition
        if want is not None and g.gate_def is not want:
            # an explicit prepare_all written by the user in native mode also carries the native def
            raise Violation("bounding-definition-identity", f"[{defs}/{mode}] {g.name} uses {g.gate_def!r}, expected the {'caller-supplied' if defs == 'objects' else 'native'} definition\n--- program:\n{text}")
    # calls of macros are LINKED to definitions (analyses follow the link, not the name): every
    # link in the result must lead to the result's own macro table
    from jaqalpaq.core.macro import Macro as _Macro

    for g in extract.find_objects(s, lambda x: isinstance(x, GateStatement) and isinstance(x.gate_def, _Macro)):
        if s.macros.get(g.name) is not g.gate_def:
            raise Violation("stale-macro-link", f"a call of {g.name} in the result is linked to a definition that is not the result's macro {g.name}\n--- program:\n{text}")
    if not (s.constants == c.constants) or not (s.registers == c.registers):
        raise Violation("header-changed", f"constants/registers\n--- program:\n{text}")
    if not (s.usepulses == c.usepulses):
        raise Violation("header-usepulses", f"{s.usepulses} != {c.usepulses}\n--- program:\n{text}")
    if list(s.macros) != list(c.macros) or not (s.native_gates == c.native_gates):
        raise Violation("header-changed", f"macros/native gates\n--- program:\n{text}")
    # the SAME circuit object expanded once more, with the other choice of bounding gates: the
    # second answer must not remember the first (anonymous mode; a native table fixes the names)
    if mode == "anon":
        p2, m2 = ("prep2", "meas2") if defs == "default" or case.get("second") else ("prepare_all", "measure_all")
        args2 = {} if (p2, m2) == ("prepare_all", "measure_all") else {"prepare_def": p2, "measure_def": m2}
        st_, s2 = guard(expand_subcircuits, c, what="expand_subcircuits (second call)", **args2)
        if st_ == "err":
            raise Violation("rejected-valid-program", f"second call: {s2}\n--- program:\n{text}")
        try:
            m_s2 = extract.meaning(s2)
            m_ref2 = Ref(desugar_prog(prog, p2, m2)).meaning()
        except (extract.ExtractError, Invalid) as e:
            raise Violation("result-unresolvable", f"second call: {e}\n--- program:\n{text}")
        if not same_meaning(m_ref2, m_s2):
            raise Violation("second-expansion-remembers-first", f"first [{defs}], then ({p2}, {m2}): expected {show(m_ref2)}\ngot      {show(m_s2)}\n--- program:\n{text}")
    ctx, explicit = _sub_context(prog)
    nt = bool(ctx & {"loop", "macro"}) or (bool(ctx) and explicit)
    return {"nontrivial": nt, "classes": ["defs:" + defs, "mode:" + mode] + ["sub-in:" + x for x in sorted(ctx)], "key": text + mode + defs, "sample": {"text": text, "mode": mode, "defs": defs}}


def struct_cases():
    nat_cfg = gen.Cfg(natives=gates.kinds_table(idle=True, names=_NATIVE_NAMES), reg_args=False, general_numbers=False, max_depth=4, macro_bias=1)
    anon_cfg = gen.Cfg(general_numbers=False, max_depth=4, macro_bias=1)

    def mk(ch):
        mode = ch.pick(["anon", "native"])
        prog, _b = gen.make_prog(ch, nat_cfg if mode == "native" else anon_cfg)
        defs = ch.pick(["default", "default", "names", "objects", "only-prepare", "only-measure", "only-prepare-object", "only-measure-object"] + (["names-native", "objects-native-named"] if mode == "native" else []))
        return {"prog": prog, "mode": mode, "defs": defs}

    return gen.cases(mk)


def behavioural(case):
    from jaqalpaq.core.algorithm import fill_in_let
    from jaqalpaq.core.result import parse_jaqal_output_list
    from jaqalpaq.emulator import run_jaqal_circuit
    from .c03 import ref_states

    prog, env, gate_seed = case["prog"], case.get("env") or {}, case["gate_seed"]
    try:
        r = ref_states(prog, env, gate_seed)
    except Invalid:
        raise Skip()
    if r is None:
        raise Skip()
    n, nsub, visits, tree = r
    size = refexec.unrolled_size(tree)
    if size > 2000 or len(visits) > 300:
        raise Skip()
    nat = gates.make_gates(gate_seed)
    p2 = desugar_prog(prog)
    texts = [render.to_text(prog), render.to_text(p2)]
    ctx = f"--- overrides {env}\n--- with subcircuit blocks:\n{texts[0]}\n--- spelled out:\n{texts[1]}"
    results = []
    ch = gen.Chooser(case.get("outs_seed", 0))
    outs = [ch.int(0, 2**n - 1) for _ in visits]
    for t in texts:
        st_, c = guard(parse, t, inject_pulses=nat, what="parse")
        if st_ == "err":
            raise Violation("spelling-rejected", f"{c}\n{ctx}")
        if env:
            st_, c = guard(fill_in_let, c, dict(env), what="fill_in_let")
            if st_ == "err":
                raise Violation("spelling-rejected", f"fill_in_let {c}\n{ctx}")
        np.random.seed(case.get("np_seed", 1))
        with step_budget(2000 * (size + 50) + 10**6):
            st_, res = guard(run_jaqal_circuit, c, what="run_jaqal_circuit")
        with step_budget(2000 * (size + 50) + 10**6):
            st2, res2 = guard(parse_jaqal_output_list, c, list(outs), what="parse_jaqal_output_list")
        results.append((st_, res, st2, res2))
    (sa, ra, sa2, ra2), (sb, rb, sb2, rb2) = results
    if sa != sb:
        raise Violation("spellings-differ-in-outcome", f"run: {sa} {ra if sa=='err' else ''} vs {sb} {rb if sb=='err' else ''}\n{ctx}")
    if sa2 != sb2:
        raise Violation("spellings-differ-in-outcome", f"output list: {sa2} {ra2 if sa2=='err' else ''} vs {sb2} {rb2 if sb2=='err' else ''}\n{ctx}", where="output-list")
    if sa == "ok":
        if len(ra.subcircuits) != len(rb.subcircuits):
            raise Violation("spellings-differ", f"subcircuit count {len(ra.subcircuits)} vs {len(rb.subcircuits)}\n{ctx}")
        for x, y in zip(ra.subcircuits, rb.subcircuits):
            if float(np.max(np.abs(np.asarray(x.simulated_probability_by_int) - np.asarray(y.simulated_probability_by_int)))) > 1e-12:
                raise Violation("spellings-differ", f"probabilities of subcircuit {x.index}\n{ctx}")
        if [r_.subcircuit.index for r_ in ra.readouts] != [r_.subcircuit.index for r_ in rb.readouts]:
            raise Violation("spellings-differ", f"readout attribution {[r_.subcircuit.index for r_ in ra.readouts]} vs {[r_.subcircuit.index for r_ in rb.readouts]}\n{ctx}")
        if len(ra.subcircuits) != nsub:
            raise Violation("subcircuit-count", f"{len(ra.subcircuits)} != reference {nsub}\n{ctx}")
    if sa2 == "ok":
        a = [(r_.index, r_.subcircuit.index, r_.as_int) for r_ in ra2.readouts]
        b = [(r_.index, r_.subcircuit.index, r_.as_int) for r_ in rb2.readouts]
        if a != b:
            raise Violation("spellings-differ", f"output-list readouts {a} vs {b}\n{ctx}", where="output-list")
        for x, y in zip(ra2.subcircuits, rb2.subcircuits):
            if not np.array_equal(np.asarray(x.relative_frequency_by_int), np.asarray(y.relative_frequency_by_int)):
                raise Violation("spellings-differ", f"output-list frequencies of subcircuit {x.index}\n{ctx}", where="output-list")
    ctxs, explicit = _sub_context(prog)
    nt = bool(ctxs & {"loop", "macro"}) or (bool(ctxs) and explicit)
    return {"nontrivial": nt, "classes": ["sub-in:" + x for x in sorted(ctxs)] + (["mixed-with-explicit"] if explicit and ctxs else []), "key": texts[0] + repr(sorted(env.items())), "sample": {"text": texts[0], "spelled_out": texts[1]}}


def bracket_mix(case):
    """The same differential WITHOUT asking the reference whether the program is acceptable:
    explicit prepare_all / measure_all gates are injected into subcircuit bodies (first, last,
    in the middle, in nested blocks), which makes most programs ill-bracketed.  Whatever the
    verdict is, it must be the verdict on the spelled-out text - `subcircuit { B }` has no
    meaning of its own."""
    from jaqalpaq.emulator import run_jaqal_circuit

    prog, gate_seed = case["prog"], case["gate_seed"]
    if not any(s[0] == "sub" for s in walk(prog["body"])) and not any(s[0] == "sub" for m in prog["macros"] for s in walk([m["body"]])):
        raise Skip()
    nat = gates.make_gates(gate_seed)
    texts = [render.to_text(prog), render.to_text(desugar_prog(prog))]
    ctx = f"--- with subcircuit blocks:\n{texts[0]}\n--- spelled out:\n{texts[1]}"
    results = []
    for t in texts:
        st_, c = guard(parse, t, inject_pulses=nat, what="parse")
        if st_ == "err":
            results.append(("parse-err", str(c)))
            continue
        np.random.seed(case.get("np_seed", 1))
        with step_budget(4 * 10**6):
            st_, res = guard(run_jaqal_circuit, c, what="run_jaqal_circuit")
        results.append((st_, res))
    (sa, ra), (sb, rb) = results
    if sa != sb:
        raise Violation("spellings-differ-in-outcome", f"{sa} {ra if sa != 'ok' else ''} vs {sb} {rb if sb != 'ok' else ''}\n{ctx}", where="bracket-mix")
    if sa == "ok":
        if len(ra.subcircuits) != len(rb.subcircuits):
            raise Violation("spellings-differ", f"subcircuit count {len(ra.subcircuits)} vs {len(rb.subcircuits)}\n{ctx}", where="bracket-mix")
        for x, y in zip(ra.subcircuits, rb.subcircuits):
            if float(np.max(np.abs(np.asarray(x.simulated_probability_by_int) - np.asarray(y.simulated_probability_by_int)))) > 1e-12:
                raise Violation("spellings-differ", f"probabilities of subcircuit {x.index}\n{ctx}", where="bracket-mix")
        if [r_.subcircuit.index for r_ in ra.readouts] != [r_.subcircuit.index for r_ in rb.readouts]:
            raise Violation("spellings-differ", f"readout attribution\n{ctx}", where="bracket-mix")
    return {"nontrivial": bool(case.get("injected")), "classes": ["verdict:" + sa] + ["injected:%d" % min(3, len(case.get("injected") or []))], "key": texts[0], "sample": {"text": texts[0], "verdict": sa}}


def bracket_cases():
    def mk(ch):
        c = gen_emul.make_emulable(ch, max_reg=3)
        prog = c["prog"]
        subs = [s for s in walk(prog["body"]) if s[0] == "sub"] + [s for m in prog["macros"] for s in walk([m["body"]]) if s[0] == "sub"]
        injected = []
        for s in subs:
            if ch.int(0, 2) == 0:
                continue
            for _ in range(ch.pick([1, 1, 2])):
                g = ["g", ch.pick(["prepare_all", "measure_all"]), []]
                # the block to put it in: the subcircuit's own statement list or a sequential block nested in it
                lists = [s[2]] + [x[1] for x in walk(s[2]) if x[0] == "seq"]
                tgt = ch.pick(lists)
                pos = ch.pick([0, len(tgt), ch.int(0, len(tgt))])
                tgt.insert(pos, g)
                injected.append([g[1], pos])
        return {"prog": prog, "gate_seed": c["gate_seed"], "np_seed": ch.int(0, 10**6), "injected": injected}

    return gen.cases(mk)


def behav_cases():
    def mk(ch):
        c = gen_emul.make_emulable(ch, max_reg=4)
        c["outs_seed"] = ch.int(0, 10**9)
        c["np_seed"] = ch.int(0, 10**6)
        c.pop("stats", None)
        return c

    return gen.cases(mk)


def parts():
    return [
        Part("structural", struct_cases(), structural, quick=4000, thorough=80000, min_nontrivial=0.15),
        Part("two-spellings", behav_cases(), behavioural, quick=1500, thorough=30000, min_nontrivial=0.15),
        Part("bracket-mix", bracket_cases(), bracket_mix, quick=1500, thorough=30000, min_nontrivial=0.15),
    ]
