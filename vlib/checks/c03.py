"""C03 — emulator state = ordered product of gate unitaries on |0..0>."""

import numpy as np

from ..common import Violation, Skip, guard, parse, render, Ref, Invalid
from ..harness import Part, step_budget
from .. import gen, gates, gen_emul, refexec, refsim

def _msgkey(e):
    """Short stable key of an error message (digits and quoted names removed)."""
    import re

    return re.sub(r"[0-9]+|'[^']*'", "#", str(e))[:40]


PROPERTY = "C03"
RULE = (
    "Executable programs over a per-case random native gate set (1-, 2-, 3-qubit Haar-style fixed unitaries, "
    "1- and 2-parameter rotations, a gate whose classical parameter sits between its qubit parameters, an INT "
    "parameter gate, a gate without unitary, idle variants of all) on registers of 1-5 (thorough: 1-7) qubits: "
    "1-4 subcircuits / explicit prepare-measure sections, qubits named directly, through alias chains (strided), "
    "through lets and macro parameters (as qubit, array, index), loops, macros, parallel blocks; numeric arguments "
    "literal / let / overridden.  Run twice: as parsed, and after fill_in_let with a drawn override dictionary.  "
    "Oracle: an independent einsum tensor simulator executes the reference-expanded, unrolled program; for every "
    "visited subcircuit |state_vector - ref| <= 1e-9 and |simulated_probability_by_int - |ref|^2| <= 1e-9, and the "
    "number of subcircuits matches.  Metamorphic: reversing the branch order of every parallel block leaves every "
    "state unchanged.  Non-trivial = a multi-qubit gate on a non-ascending tuple, or an aliased qubit, or a loop "
    "count > 1 around gates. distinct = (text, overrides, gate-set seed)."
)
ASSUMPTIONS = [
    "gate matrices are inputs supplied by the harness (vlib/gates.py); both sides evaluate the same matrix function",
    "n <= 7 qubits (pure-Python emulator is exponential); tolerance 1e-9",
]

TOL = 1e-9


_SHARED_BACKEND = []


def shared_backend():
    """ONE emulator backend object for all the cases of a process (passed as backend=...): a
    backend is configuration, not a place to keep what an earlier circuit needed."""
    if not _SHARED_BACKEND:
        from jaqalpaq.emulator.unitary import UnitarySerializedEmulator

        _SHARED_BACKEND.append(UnitarySerializedEmulator())
    return _SHARED_BACKEND[0]


def ref_states(prog, env, gate_seed, desugar=False):
    ref = Ref(prog, env)
    ref.check_static()
    n = ref.reg_size()
    tree = refexec.expand(ref)
    acc = refexec.accept(tree)
    if acc[0] != "ok" or refexec.static_errors(tree, n):
        return None  # outside the property's domain (not a valid executable program)
    _ok, nsub, sites = acc

    def init():
        return refsim.zero_state(n)

    def apply_gate(state, name, vals):
        cl = [v[1] for v in vals if v[0] == "num"]
        m = gates.matrix(gate_seed, name, cl)
        if m is None:
            return state
        return refsim.apply(state, m, [v[1] for v in vals if v[0] == "q"])

    visits = refexec.execute(tree, sites, apply_gate, init)
    return n, nsub, visits, tree


def _features(tree, prog):
    f = set()

    def rec(node, in_loop):
        if node[0] == "g":
            qs = refexec.gate_qubits(node)
            if len(qs) >= 2 and qs != sorted(qs):
                f.add("non-ascending-tuple")
            if len(qs) >= 2:
                f.add("multi-qubit")
            if in_loop and node[1] not in ("prepare_all", "measure_all"):
                f.add("gate-in-repeated-loop")
            if node[1].startswith("I_"):
                f.add("idle-gate")
            if node[1] == "NoU":
                f.add("no-unitary-gate")
        elif node[0] == "loop":
            rec(node[2], in_loop or node[1] > 1)
        elif node[0] == "par":
            if len(node[1]) > 1:
                f.add("parallel")
            for k in node[1]:
                rec(k, in_loop)
        else:
            for k in node[2] if node[0] == "sub" else node[1]:
                rec(k, in_loop)

    rec(tree, False)
    if prog["maps"]:
        from ..model import all_stmts

        names = {m[0] for m in prog["maps"]}
        for s in all_stmts(prog):
            if s[0] == "g" and any((a[0] in ("id", "ix")) and a[1] in names for a in s[2]):
                f.add("aliased-qubit")
    if prog["macros"]:
        f.add("macros")
    return f


def _reverse_par(stmts):
    out = []
    for s in stmts:
        if s[0] == "par":
            out.append(["par", list(reversed(_reverse_par(s[1])))])
        elif s[0] == "seq":
            out.append(["seq", _reverse_par(s[1])])
        elif s[0] == "loop":
            out.append(["loop", s[1], _reverse_par([s[2]])[0]])
        elif s[0] == "sub":
            out.append(["sub", s[1], _reverse_par(s[2])])
        else:
            out.append(s)
    return out


def run_emulator(prog, env, natives, budget, reuse_backend=False):
    from jaqalpaq.core.algorithm import fill_in_let
    from jaqalpaq.emulator import run_jaqal_circuit

    text = render.to_text(prog)
    st_, c = guard(parse, text, inject_pulses=natives, what="parse")
    if st_ == "err":
        raise Violation("rejected-valid-program", f"parse: {c}\n--- program:\n{text}", where="parse:" + _msgkey(c))
    if env:
        st_, c = guard(fill_in_let, c, dict(env), what="fill_in_let")
        if st_ == "err":
            raise Violation("rejected-valid-program", f"fill_in_let: {c}\n--- overrides {env}\n--- program:\n{text}", where="fill_in_let:" + _msgkey(c))
    np.random.seed(12345)
    with step_budget(budget):
        if reuse_backend:
            st_, res = guard(run_jaqal_circuit, c, backend=shared_backend(), what="run_jaqal_circuit(backend=shared)")
        else:
            st_, res = guard(run_jaqal_circuit, c, what="run_jaqal_circuit")
    if st_ == "err":
        raise Violation("rejected-valid-program", f"run: {res}\n--- overrides {env}\n--- program:\n{text}", where="run:" + _msgkey(res))
    return res, text


def _text_entry_points(prog, n, nsub, seen, budget):
    """The same program through run_jaqal_string and run_jaqal_file (gates loaded by the
    program's own `from ... usepulses *`): same subcircuits, same states."""
    import os
    import tempfile

    from jaqalpaq.emulator import run_jaqal_string, run_jaqal_file

    p2 = dict(prog)
    p2["usepulses"] = ["vlib.pulses.full"]
    text = render.to_text(p2)
    ctx = f"--- gate set of vlib.pulses.full\n--- program:\n{text}"
    outs = []
    np.random.seed(12345)
    with step_budget(budget):
        st_, r1 = guard(run_jaqal_string, text, what="run_jaqal_string")
    outs.append(("run_jaqal_string", st_, r1))
    d = tempfile.mkdtemp(prefix="vlibc03_")
    try:
        fn = os.path.join(d, "prog.jaqal")
        with open(fn, "w") as fd:
            fd.write(text)
        np.random.seed(12345)
        with step_budget(budget):
            st_, r2 = guard(run_jaqal_file, fn, what="run_jaqal_file")
        outs.append(("run_jaqal_file", st_, r2))
    finally:
        import shutil

        shutil.rmtree(d, ignore_errors=True)
    for who, st_, res in outs:
        if st_ == "err":
            raise Violation("rejected-valid-program", f"{who}: {res}\n{ctx}", where=who + ":" + _msgkey(res))
        if len(res.subcircuits) != nsub:
            raise Violation("subcircuit-count", f"{who}: {len(res.subcircuits)} != reference {nsub}\n{ctx}", where=who)
        for idx, state in seen.items():
            want = refsim.flat(state)
            got = np.asarray(res.subcircuits[idx].state_vector)
            if got.shape != want.shape or not float(np.max(np.abs(got - want))) <= TOL:
                raise Violation("state-vector", f"{who}, subcircuit {idx}\nemulator  {np.round(got, 4)}\nreference {np.round(want, 4)}\n{ctx}", where=who)


def check(case):
    prog, gate_seed = case["prog"], case["gate_seed"]
    via_text = gate_seed % 3 == 0 and not prog["usepulses"]
    if via_text:
        gate_seed = 0  # the gate set that vlib.pulses.full exposes
    natives = gates.make_gates(gate_seed)
    classes = set()
    key = None
    nt = False
    sample = None
    for env in ([{}] + ([case["env"]] if case.get("env") else [])):
        try:
            r = ref_states(prog, env, gate_seed)
        except Invalid:
            raise Skip()
        if r is None:
            raise Skip()
        n, nsub, visits, tree = r
        size = refexec.unrolled_size(tree)
        if size * 2**n > 3000 * 32:
            raise Skip()  # bounded by case size (emulator cost ~ gates x 2^n), never by a clock
        budget = 2000 * (size + 50) + 10**6
        reuse = gate_seed % 2 == 0
        res, text = run_emulator(prog, env, natives, budget, reuse_backend=reuse)
        ctx = f"--- gate-set seed {gate_seed}, overrides {env}{', shared backend object' if reuse else ''}\n--- program:\n{text}"
        if len(res.subcircuits) != nsub:
            raise Violation("subcircuit-count", f"emulator {len(res.subcircuits)} != reference {nsub}\n{ctx}")
        seen = {}
        for idx, state in visits:
            if not isinstance(state, str):
                seen.setdefault(idx, state)
        # subcircuit BLOCKS that are never visited (zero-count loops) still report their own state
        ref_ = Ref(prog, env)
        acc_ = refexec.accept(tree)

        def _apply(state, name, vals):
            m_ = gates.matrix(gate_seed, name, [v[1] for v in vals if v[0] == "num"])
            return state if m_ is None else refsim.apply(state, m_, [v[1] for v in vals if v[0] == "q"])

        unvisited = 0
        for idx, state in refexec.subcircuit_block_states(tree, acc_[2], _apply, lambda: refsim.zero_state(n)).items():
            if idx not in seen:
                seen[idx] = state
                unvisited += 1
        for idx, state in seen.items():
            want = refsim.flat(state)
            got = np.asarray(res.subcircuits[idx].state_vector)
            if got.shape != want.shape:
                raise Violation("state-shape", f"subcircuit {idx}: {got.shape} != {want.shape}\n{ctx}")
            err = float(np.max(np.abs(got - want)))
            if not err <= TOL:
                raise Violation("state-vector", f"subcircuit {idx}: max |emulator - reference| = {err:.3g}\nemulator  {np.round(got, 4)}\nreference {np.round(want, 4)}\n{ctx}")
            p = np.asarray(res.subcircuits[idx].simulated_probability_by_int)
            perr = float(np.max(np.abs(p - np.abs(want) ** 2)))
            if not perr <= TOL:
                raise Violation("probabilities", f"subcircuit {idx}: max |p - |ref|^2| = {perr:.3g}\n{ctx}")
        if via_text and not env:
            _text_entry_points(prog, n, nsub, seen, budget)
            classes.add("text-entry-points")
        # metamorphic: parallel branch order is irrelevant
        feats = _features(tree, prog)
        if "parallel" in feats and not env:
            p2 = dict(prog)
            p2["body"] = _reverse_par(prog["body"])
            p2["macros"] = [dict(m, body=_reverse_par([m["body"]])[0]) for m in prog["macros"]]
            res2, text2 = run_emulator(p2, env, natives, budget)
            if len(res2.subcircuits) != len(res.subcircuits):
                raise Violation("parallel-order-changes-result", f"subcircuit count\n{ctx}")
            for a, b in zip(res.subcircuits, res2.subcircuits):
                if float(np.max(np.abs(np.asarray(a.state_vector) - np.asarray(b.state_vector)))) > TOL:
                    raise Violation("parallel-order-changes-result", f"subcircuit {a.index}\n{ctx}\n--- reversed:\n{text2}")
        classes |= feats
        if env:
            classes.add("with-override")
        if unvisited:
            classes.add("unvisited-subcircuit-block")
        if reuse:
            classes.add("shared-backend-object")
        nt = nt or bool(feats & {"non-ascending-tuple", "aliased-qubit", "gate-in-repeated-loop"}) and bool(seen)
        key = text + repr(sorted(case.get("env", {}).items())) + str(gate_seed)
        sample = {"text": text, "overrides": case.get("env", {}), "gate_seed": gate_seed, "n_qubits": n, "subcircuits": nsub}
    classes.add("qubits:%d" % n)
    return {"nontrivial": nt, "classes": sorted(classes), "key": key, "sample": sample}


# ------------------------------------------------------------------------------ gate family
# Kinds of definitions the random gate sets do not contain: a BUSY gate that has a unitary, gates
# without unitary whose parameter is a whole register or untyped, idle twins of those - each in a
# small hand-written program whose outcome is certain.

FAMILY = [
    ("busy gate with a unitary acts like any gate", "prepare_all\nX q[0]\nBUSX q[1]\nmeasure_all\n", 3),
    ("busy gate in a subcircuit block", "subcircuit {\nBUSX q[2]\nX q[0]\n}\n", 5),
    ("unitary-less gate with a whole register / alias argument", "prepare_all\nRGN q\nX q[2]\nRGN a\nmeasure_all\n", 4),
    ("unitary-less gate with an untyped parameter", "prepare_all\nNNN q[1]\nNNN 0.5\nX q[0]\nI_RGN a\nI_NNN q[2]\nmeasure_all\n", 1),
    ("idle twin of a busy gate beside another gate", "subcircuit {\nX q[1]\n< I_BUSX q[0] | X q[2] >\n}\n", 6),
    ("register-typed gate on aliases inside a macro", "macro m r i { RGN r; X a[i] }\nsubcircuit { m a 1; m q 0 }\n", 6),
    ("busy gate between sections", "loop 2 {\nprepare_all\nBUSX q[0]\nI_BUSX q[1]\nmeasure_all\n}\n", 1),
]


def family_case(case):
    from jaqalpaq.core import GateDefinition, Parameter, ParamType
    from jaqalpaq.core.gatedef import BusyGateDefinition, add_idle_gates
    from jaqalpaq.core.algorithm import get_used_qubit_indices
    from jaqalpaq.emulator import run_jaqal_circuit

    title, body, want = FAMILY[case["i"]]
    x = np.array([[0, 1], [1, 0]], dtype=complex)
    base = {
        "prepare_all": BusyGateDefinition("prepare_all"),
        "measure_all": BusyGateDefinition("measure_all"),
        "X": GateDefinition("X", [Parameter("a", ParamType.QUBIT)], ideal_unitary=lambda: x),
        "BUSX": BusyGateDefinition("BUSX", [Parameter("a", ParamType.QUBIT)], ideal_unitary=lambda: x),
        "RGN": GateDefinition("RGN", [Parameter("r", ParamType.REGISTER)]),
        "NNN": GateDefinition("NNN", [Parameter("v", None)]),
    }
    nat = add_idle_gates(base)
    text = "register q[3]\nmap a q[1:3]\n" + body
    ctx = f"{title}\n--- program:\n{text}"
    st_, c = guard(parse, text, inject_pulses=nat, what="parse")
    if st_ == "err":
        raise Violation("rejected-valid-program", f"parse: {c}\n{ctx}", where="parse")
    np.random.seed(7)
    backend = shared_backend() if case["shared"] else None
    st_, res = guard(run_jaqal_circuit, c, backend=backend, what="run_jaqal_circuit")
    if st_ == "err":
        raise Violation("rejected-valid-program", f"run: {res}\n{ctx}", where="run:" + _msgkey(res))
    for sc in res.subcircuits:
        p = np.asarray(sc.simulated_probability_by_int, dtype=float)
        if p.shape != (8,) or abs(p[want] - 1.0) > 1e-9:
            raise Violation("probabilities", f"expected outcome {want} with certainty, got {np.round(p, 6)}\n{ctx}", where="family")
    if any(int(r.as_int) != want for r in res.readouts) or not res.readouts:
        raise Violation("impossible-outcome", f"readouts {[int(r.as_int) for r in res.readouts]}, expected {want}\n{ctx}", where="family")
    st_, used = guard(get_used_qubit_indices, c, what="get_used_qubit_indices")
    if st_ == "err":
        raise Violation("rejected-valid-program", f"get_used_qubit_indices: {used}\n{ctx}", where="used")
    return {"nontrivial": True, "classes": ["template:%d" % case["i"]], "key": repr(case), "sample": {"text": text, "outcome": want}}


def _family_enum(tier):
    for i in range(len(FAMILY)):
        for shared in (False, True):
            yield {"i": i, "shared": shared}


def cases(max_reg):
    return gen.cases(lambda ch: gen_emul.make_emulable(ch, max_reg=max_reg))


def parts():
    import os

    big = os.environ.get("VERIF_TIER") == "thorough"
    return [
        Part("emulate", cases(7 if big else 5), check, quick=4000, thorough=60000, min_nontrivial=0.2),
        Part("gate-family", None, family_case, quick=0, thorough=0, exhaustive=_family_enum, shards=1),
    ]
