"""C02 — the parser accepts exactly the grammar, is layout-insensitive, reports usable positions."""

from hypothesis import strategies as st

from ..common import Violation, Skip, guard, render, prog_features
from ..harness import Part
from .. import gen, refgrammar
from ..render import prog_tokens, to_sexpr, plain, num_text
from ..model import is_int

PROPERTY = "C02"
RULE = (
    "positive: a grammar-generated program (incl. branch/case, which is plain grammar at parse_to_sexpression level) "
    "is rendered under a drawn layout - every separator position a non-empty run of ';'/newline ('|'/newline in "
    "parallel blocks), optional leading/trailing separators, spaces/tabs, '//' comments before newlines, one or "
    "many '/* */' comments (multi-line, containing '//', '/*', keywords, code) between any two tokens, alternative "
    "number spellings - and parse_to_sexpression must return exactly the S-expression rendered independently from "
    "the model (layout-independent, so nothing may be dropped). Non-trivial = (>=2 block comments or a comment "
    "inside a statement) and both ';' and newline used as separators. "
    "negative: a legal token stream gets zero to two token-level edits (delete, duplicate, swap adjacent, replace or "
    "insert a token from a pool of all literals/keywords/identifiers/numbers/separators) and/or up to two exchanges "
    "of whole top-level statements (header statements, macro definitions, body statements), rendered space-separated; "
    "an independent Earley recognizer for the grammar decides accept/reject and the first offending token k; the "
    "parser must accept iff the recognizer accepts (then the tree must equal an independent recursive-descent "
    "tree), and on reject raise JaqalParseError positioned at a token with index >= k or at end of input. "
    "Non-trivial = recognizer rejects at k < number of tokens.  error-position-layout: one offending token is "
    "inserted into a legal program that is rendered under a layout WITH comments (also comments containing \\r, "
    "\\f, \\v, \\x85, U+2028); the reported line/column must be the start of a token at or after the inserted one "
    "(lines are separated by newline characters only) or the end of input. distinct = distinct text."
)
ASSUMPTIONS = [
    "the two rule-level rejections that are not grammar (register size <= 0, 'import .. as ..') are only required to raise JaqalParseError",
    "unsigned '.5' is not used as a spelling (the lexer reads it as '.' followed by 5; the property does not fix number spellings)",
]

import re

_NUMERIC = re.compile(r"[-+]?([0-9]+|[0-9]*\.[0-9]+([eE][-+]?[0-9]+)?)")

WEIRD_COMMENT_BODIES = [" a\rb ", " a\fb ", " \x85 ", " \u2028x\u2029 ", " a\vb\x1cc ", "\r", " x\r\ny ", " tab\there "]

COMMENT_BODIES = [
    " c ",
    "",
    " // not a line comment ",
    " /* not nested ",
    " let x 1; register q[2]; g q[0] ",
    " multi\nline\ncomment ",
    "\n",
    " * / * ",
    " { ",
    " the ancilla is q<2> ",
    " } > | < ",
    "*",
    " loop 3 { X } ",
    " ; | < > { } ",
]
LINE_COMMENTS = ["// c", "//", "// /* not open", "// let x 1 ; g", "//* x */ g", "// q<2> {", "// }"]


def _layout_case(ch):
    prog, _b = gen.make_prog(ch, gen.Cfg(max_depth=4, max_body=4, general_numbers=True))
    if ch.int(0, 4) == 0:
        cases = []
        for i in range(ch.int(0, 3)):
            bits = "".join(ch.pick("01") for _ in range(ch.int(1, 3)))
            kind = ch.pick(["seq", "par"])
            cases.append([bits, [kind, [["g", "X", []]] * ch.int(0, 2)]])
        prog["body"] = list(prog["body"]) + [["branch", cases]]
    return {"prog": prog, "layout": ch.ints(48, 0, 255)}


def layout_cases():
    return gen.cases(_layout_case)


def _layout_text(prog, choices, toks=None, offsets=None, weird=False):
    """Render prog under the layout encoded by `choices`. Returns (text, stats)."""
    toks = prog_tokens(prog) if toks is None else toks
    stats = {"block": 0, "line": 0, "gapc": 0, "semi": 0, "nl": 0, "bar": 0}
    n = len(choices)
    pos = [0]

    def ch():
        pos[0] += 1
        return choices[(pos[0] * 7 + pos[0] // n) % n]

    def block_comment():
        stats["block"] += 1
        bodies = COMMENT_BODIES + WEIRD_COMMENT_BODIES if weird else COMMENT_BODIES
        return "/*" + bodies[ch() % len(bodies)] + "*/"

    def ws():
        c = ch() % 8
        if c < 3:
            return " "
        if c == 3:
            return "\t"
        if c == 4:
            return "  "
        if c == 5:
            stats["gapc"] += 1
            return " " + block_comment() + " "
        if c == 6:
            stats["gapc"] += 1
            return block_comment()
        stats["gapc"] += 1
        return " " + block_comment() + block_comment() + " "

    def optws():
        c = ch() % 6
        if c < 3:
            return ""
        if c == 3:
            return " "
        if c == 4:
            return "\t "
        return " " + block_comment()

    def newline():
        stats["nl"] += 1
        c = ch() % 5
        pre = ""
        if c == 0:
            stats["line"] += 1
            pre = " " + LINE_COMMENTS[ch() % len(LINE_COMMENTS)]
        return pre + "\n"

    def run(kind, minimum):
        other = ";" if kind in ("sep", "pad") else "|"
        k = ch() % 4
        count = minimum if k < 2 else minimum + k - 1
        s = optws()
        for _ in range(count):
            if ch() % 2:
                s += newline()
            else:
                s += other
                stats["semi" if other == ";" else "bar"] += 1
            s += optws()
        return s

    def layout(kind, i):
        if kind == "gap":
            return ws()
        if kind in ("sep", "psep"):
            return run(kind, 1)
        return run(kind, 0)

    # number spellings: rewrite numeric tokens
    out = []
    for kind, text in toks:
        if kind == "tok" and _NUMERIC.fullmatch(text) and ch() % 3 == 0:
            try:
                v = int(text)
                text = num_text(v, "plus")
            except ValueError:
                v = float(text)
                sp = ["plus", "trail", "upper", "nolead"][ch() % 4]
                t2 = num_text(v, sp)
                if float(t2) == v:
                    text = t2
        out.append((kind, text))
    text = render.tokens_to_text(out, layout, offsets)
    return text, stats


def positive(case):
    from jaqalpaq.parser.parser import parse_to_sexpression

    prog = case["prog"]
    text, stats = _layout_text(prog, case["layout"])
    expected = plain(to_sexpr(prog))
    st_, got = guard(parse_to_sexpression, text, what="parse_to_sexpression")
    if st_ == "err":
        raise Violation("rejected-legal-text", f"{got}\n--- text:\n{text}")
    got = plain(got)
    if repr(got) != repr(expected):
        kind = "tree-differs"
        if len(got) < len(expected):
            kind = "statement-dropped"
        raise Violation(kind, f"got      {got}\nexpected {expected}\n--- text:\n{text}")
    nt = (stats["block"] >= 2 or stats["gapc"] >= 1) and stats["semi"] >= 1 and stats["nl"] >= 1
    classes = ["block-comments:%s" % min(stats["block"], 3), "line-comments:%s" % min(stats["line"], 2)]
    # header-only parsing of the same text (comments and all): exactly the header statements
    st_, goth = guard(parse_to_sexpression, text, header_only=True, what="parse_to_sexpression(header_only)")
    if st_ == "err":
        raise Violation("rejected-legal-text", f"header_only: {goth}\n--- text:\n{text}", where="header-only")
    wanth = [x for x in expected if x == "circuit" or (isinstance(x, list) and x and x[0] in _HEADER_HEADS)]
    if repr(plain(goth)) != repr(wanth):
        raise Violation("tree-differs", f"header_only got {plain(goth)}\nexpected {wanth}\n--- text:\n{text}", where="header-only")
    # the full entry point: a program that is also VALID (references, nesting) must be accepted
    # by parse_jaqal_string under the same layout, and mean what the reference says
    if not any(s[0] == "branch" for s in prog["body"]):
        from ..common import Ref, Invalid, parse, extract, same_meaning, show

        try:
            want = Ref(prog).validate()
        except Invalid:
            want = None
        if want is not None:
            st_, c = guard(parse, text, what="parse_jaqal_string")
            if st_ == "err":
                raise Violation("rejected-valid-program", f"{c}\n--- text:\n{text}")
            try:
                gotm = extract.Extractor(c).meaning()
            except extract.ExtractError as e:
                raise Violation("circuit-unresolvable", f"{e}\n--- text:\n{text}")
            if not same_meaning(want, gotm):
                raise Violation("circuit-meaning", f"reference {show(want)}\ncircuit {show(gotm)}\n--- text:\n{text}")
            classes.append("valid-program-built")
            # ... and the header entry point declares what the full parse declares
            from jaqalpaq.parser.parser import parse_jaqal_string_header

            st_, hc = guard(parse_jaqal_string_header, text, what="parse_jaqal_string_header")
            if st_ == "err":
                raise Violation("rejected-valid-program", f"parse_jaqal_string_header: {hc}\n--- text:\n{text}", where="header-entry")
            if not (hc.constants == c.constants) or not (hc.registers == c.registers) or [str(u.module) for u in hc.usepulses] != [str(u.module) for u in c.usepulses]:
                raise Violation("tree-differs", f"parse_jaqal_string_header declares constants {list(hc.constants)} registers {list(hc.registers)} imports {[str(u.module) for u in hc.usepulses]}; the full parse: {list(c.constants)} {list(c.registers)} {[str(u.module) for u in c.usepulses]}\n--- text:\n{text}", where="header-entry")
    if any(s[0] == "branch" for s in prog["body"]):
        classes.append("branch")
    if stats["bar"]:
        classes.append("bar-separator")
    return {"nontrivial": nt, "classes": classes, "key": text, "sample": {"text": text}}


# ------------------------------------------------------------------------------ negative

POOL = (
    [(k, s) for s, k in refgrammar.KEYWORD_KIND.items()]
    + [(c, c) for c in refgrammar.LITERALS]
    + [("NL", "\n"), ("NL", "\n"), (";", ";")]
    + [("ID", s) for s in ["g", "q", "a", "x", "foo", "a.b", "prepare_all", "a.1", "q.0x.y_", "let.x", "from.foo", "a.loop", "looper"]]
    + [("DOTID", ".m"), ("DOTID", "."), ("DOTID", ".m.2x")]
    + [("INT", s) for s in ["0", "1", "7", "-1", "+3"]]
    + [("NUMBER", s) for s in ["0.5", "-1.5e-3", "2.0"]]
    + [("BININT", "'01'"), ("BININT", "'1'")]
    + [("ILLEGAL", "@"), ("ILLEGAL", "٢"), ("ILLEGAL", "２5"), ("ILLEGAL", "$x")]
)


def _nearmiss_case(ch):
    prog, _b = gen.make_prog(ch, gen.Cfg(max_depth=3, max_body=3, max_lets=2, max_maps=2, max_macros=2, general_numbers=False))
    muts = []
    for _ in range(ch.pick([0, 1, 1, 1, 1, 1, 2, 2])):
        muts.append([ch.pick(["delete", "duplicate", "swap", "replace", "replace", "insert", "wrap", "bad-register-size", "import-statement"]), ch.int(0, 10**6), ch.int(0, len(POOL) - 1)])
    order = [[ch.int(0, 50), ch.int(0, 50)] for _ in range(ch.pick([0, 0, 1, 1, 2]))]
    return {"prog": prog, "seps": ch.ints(16, 0, 5), "muts": muts, "order": order}


def nearmiss_cases():
    return gen.cases(_nearmiss_case)


def _item_order_tokens(prog, order):
    """Token stream (abstract separators) of the program with its top-level items permuted:
    header statements, macro definitions and body statements in the drawn order."""
    from ..render import header_items, macro_tokens, stmt_tokens

    items = header_items(prog) + [macro_tokens(m) for m in prog["macros"]]
    for s in prog["body"]:
        t = []
        stmt_tokens(s, t)
        items.append(t)
    if order:
        idx = list(range(len(items)))
        for a, b in order:
            if items:
                i, j = a % len(items), b % len(items)
                idx[i], idx[j] = idx[j], idx[i]
        items = [items[i] for i in idx]
    out = [("pad", "")]
    for i, it in enumerate(items):
        if i:
            out.append(("sep", ""))
        out.extend(it)
    out.append(("pad", ""))
    return out


def _token_stream(prog, sepsel, order=None):
    toks = []
    j = 0
    for kind, text in (_item_order_tokens(prog, order) if order else prog_tokens(prog)):
        if kind == "tok":
            toks.append(refgrammar.classify(text)[:1] + (text,))
            continue
        j += 1
        c = sepsel[j % len(sepsel)]
        if kind == "sep":
            toks.append((";", ";") if c % 2 else ("NL", "\n"))
            if c == 5:
                toks.append(("NL", "\n"))
        elif kind == "psep":
            toks.append(("|", "|") if c % 2 else ("NL", "\n"))
        elif kind == "pad":
            if c == 0:
                toks.append(("NL", "\n"))
            elif c == 1:
                toks.append((";", ";"))
        elif kind == "ppad":
            if c == 0:
                toks.append(("NL", "\n"))
            elif c == 1:
                toks.append(("|", "|"))
    return toks


def _render_positions(toks):
    """Space-separated rendering; returns text and the (line, col) of every token (1-based)."""
    parts, posn = [], []
    line, col = 1, 1
    for i, (_k, s) in enumerate(toks):
        if i:
            parts.append(" ")
            col += 1
        posn.append((line, col))
        parts.append(s)
        if s == "\n":
            line += 1
            col = 1
        else:
            col += len(s)
    return "".join(parts), posn


def _value_tokens(toks):
    out = []
    for k, s in toks:
        if k == "ILLEGAL":
            out.append(("ILLEGAL", s))  # no terminal of the grammar: the recognizer stops here
        else:
            out.append(refgrammar.classify(s) if k not in ("NL",) else ("NL", "\n"))
    return out


def _rule_level(vt):
    """Index of the first statement the parser rejects in its rules although it is grammatical."""
    for i, (k, v) in enumerate(vt):
        if k == "IMPORT":
            return i
        if k == "REG" and i + 3 < len(vt) and vt[i + 2][0] == "[" and vt[i + 3][0] == "INT" and vt[i + 3][1] <= 0:
            return i
    return None


_HEADER_HEADS = ("usepulses", "let", "register", "map")
_HEADER_START = {"FROM", "LET", "REG", "MAP", "IMPORT"}


def _in_header_region(vt, k):
    """Tokens 0..k-1 are all header: every statement so far starts with a header keyword (no
    brace, bracket pair of a body, macro, loop ...) - the failure at token k is a header failure."""
    start = True
    for kind, _v in vt[: (len(vt) if k is None else k)]:
        if kind in ("NL", ";"):
            start = True
            continue
        if start:
            if kind not in _HEADER_START:
                return False
            start = False
        elif kind in ("{", "}", "<", ">", "|", "MACRO", "LOOP", "SUBCIRCUIT", "BRANCH"):
            return False
    return True


def _header_only(text, vt, acc, k, tree):
    """parse_to_sexpression(header_only=True) / parse_jaqal_string_header: the header part is
    parsed like any text - a malformed header is a parse error, a well-formed one gives exactly
    the header statements."""
    from jaqalpaq.parser.parser import parse_to_sexpression
    from jaqalpaq.parser.slyparse import JaqalParseError

    st_, got = guard(parse_to_sexpression, text, header_only=True, what="parse_to_sexpression(header_only)")
    if acc and tree is not None:
        if st_ == "err":
            raise Violation("rejected-grammatical-text", f"header_only: {got}\n--- text:\n{text}", where="header-only")
        want = [x for x in plain(tree) if x == "circuit" or (isinstance(x, list) and x and x[0] in _HEADER_HEADS)]
        if repr(plain(got)) != repr(want):
            raise Violation("tree-differs", f"header_only got {plain(got)}\nexpected {want}\n--- text:\n{text}", where="header-only")
    elif not acc and _in_header_region(vt, k):
        if st_ == "ok":
            raise Violation("accepted-ungrammatical-text", f"header_only: malformed header (first offending token {k}) accepted as {plain(got)}\n--- text:\n{text}", where="header-only")
        if not isinstance(got, JaqalParseError):
            raise Violation("wrong-error-type", f"header_only: {type(got).__name__}: {got}\ntext:\n{text}", where="header-only")


def negative(case):
    from jaqalpaq.parser.parser import parse_to_sexpression
    from jaqalpaq.parser.slyparse import JaqalParseError

    toks = _token_stream(case["prog"], case["seps"], case.get("order"))
    for op, where, pool_i in case["muts"]:
        if not toks:
            break
        i = where % len(toks)
        if op == "delete":
            del toks[i]
        elif op == "duplicate":
            toks.insert(i, toks[i])
        elif op == "swap":
            if i + 1 < len(toks):
                toks[i], toks[i + 1] = toks[i + 1], toks[i]
        elif op == "replace":
            toks[i] = POOL[pool_i]
        elif op == "insert":
            toks.insert(i, POOL[pool_i])
        elif op == "wrap":
            # a BALANCED pair of brackets around a run of whole statements (or tokens): no single
            # token edit produces `{ { g } }` or `< < g > >`; the recognizer decides
            o, c = [("{", "}"), ("<", ">"), ("{", "}"), ("[", "]")][pool_i % 4]
            starts = [t for t in range(len(toks)) if t == 0 or toks[t - 1][0] in ("NL", ";", "{", "<", "|")]
            a = starts[where % len(starts)]
            ends = [e for e in range(a, len(toks)) if e == len(toks) - 1 or toks[e + 1][0] in ("NL", ";", "}", ">", "|")]
            b = ends[(pool_i // 4) % min(len(ends), 4)] if ends else a
            toks.insert(b + 1, (c, c))
            toks.insert(a, (o, o))
        elif op == "import-statement":
            # grammatical, refused by its rule ("not yet implemented"): a whole statement put
            # where a statement may stand
            seps = [j for j, (k_, _s) in enumerate(toks) if k_ in ("NL", ";")]
            j = seps[where % len(seps)] + 1 if seps else 0
            toks[j:j] = [("IMPORT", "import"), ("ID", "a"), ("AS", "as"), ("ID", "b"), ("NL", "\n")]
        elif op == "bad-register-size":
            # grammatical, but refused by the register rule itself: the error must still point
            # into (or after) that statement
            for j, (k_, s_) in enumerate(toks):
                if s_ == "register" and j + 3 < len(toks) and toks[j + 2][1] == "[":
                    toks[j + 3] = ("INT", ["0", "-1", "-7"][pool_i % 3])
                    break
    text, posn = _render_positions(toks)
    vt = _value_tokens(toks)
    kinds = [k for k, _v in vt]
    acc, k = refgrammar.earley(kinds)
    rl = _rule_level(vt)
    st_, got = guard(parse_to_sexpression, text, what="parse_to_sexpression")
    classes = ["mut:" + "+".join(m[0] for m in case["muts"]) if case["muts"] else "mut:none"]
    if case.get("order"):
        classes.append("statements-permuted")
    if acc:
        classes.append("recognizer-accepts")
        if rl is not None:
            if st_ == "ok":
                raise Violation("rule-level-accepted", f"text:\n{text}")
            if not isinstance(got, JaqalParseError):
                raise Violation("wrong-error-type", f"{type(got).__name__}: {got}\ntext:\n{text}")
            line, col = got.line, got.column
            if isinstance(line, int) and posn and (line, col) <= posn[-1]:
                if (line, col) not in posn:
                    raise Violation("position-not-a-token", f"rule-level error reported {line}:{col}, token starts {posn}\n--- text:\n{text}", where="rule-level")
                if posn.index((line, col)) < rl:
                    raise Violation("position-before-offending-token", f"rule-level error reported {line}:{col} = token {posn.index((line, col))}, the refused statement starts at token {rl}\n--- text:\n{text}", where="rule-level")
            return {"nontrivial": True, "classes": classes + ["rule-level"], "key": text, "sample": {"text": text, "refused_statement_at_token": rl, "reported": [line, col]}}
        if st_ == "err":
            raise Violation("rejected-grammatical-text", f"{got}\n--- text:\n{text}")
        ok, tree = refgrammar.rd_parse(vt)
        if ok != "ok":
            raise RuntimeError(f"reference recognizer and reference parser disagree on {text!r}")
        if repr(plain(got)) != repr(plain(tree)):
            raise Violation("tree-differs", f"got      {plain(got)}\nexpected {plain(tree)}\n--- text:\n{text}")
        _header_only(text, vt, True, None, tree)
        return {"nontrivial": False, "classes": classes, "key": text}
    classes.append("recognizer-rejects" + ("-at-end" if k is None else ""))
    if rl is None or (k is not None and k < rl):
        _header_only(text, vt, False, k, None)
        if _in_header_region(vt, k):
            classes.append("malformed-header")
    if st_ == "ok":
        raise Violation("accepted-ungrammatical-text", f"first offending token index {k}\n--- text:\n{text}\n--- tree: {plain(got)}")
    if not isinstance(got, JaqalParseError):
        raise Violation("wrong-error-type", f"{type(got).__name__}: {got}\ntext:\n{text}")
    line, col = got.line, got.column
    at_end = line == "EOF" or (isinstance(line, int) and (line, col) > posn[-1] if posn else True)
    if rl is not None and (k is None or rl <= k):
        return {"nontrivial": False, "classes": classes + ["rule-level"], "key": text}
    if not at_end:
        if not (isinstance(line, int) and isinstance(col, int)):
            raise Violation("bad-position", f"line={line!r} column={col!r}\n--- text:\n{text}")
        if (line, col) not in posn:
            raise Violation("position-not-a-token", f"reported {line}:{col}, token starts {posn}\n--- text:\n{text}")
        idx = posn.index((line, col))
        if k is None or idx < k:
            raise Violation(
                "position-before-offending-token",
                f"reported {line}:{col} = token {idx}, first offending token {k}\n--- text:\n{text}",
            )
    return {
        "nontrivial": k is not None and k < len(toks),
        "classes": classes,
        "key": text,
        "sample": {"text": text, "first_offending_token": k, "reported": [line, col]},
    }


def _position_case(ch):
    prog, _b = gen.make_prog(ch, gen.Cfg(max_depth=3, max_body=3, max_lets=2, max_maps=2, max_macros=2, general_numbers=False))
    return {"prog": prog, "layout": ch.ints(48, 0, 255), "where": ch.int(0, 10**6), "bad": ch.pick(["}", "]", ">", ",", ":", "*", "as", "'01'", "[", "|"])}


def positions(case):
    """One offending token is inserted into a legal program rendered under a layout with
    comments (also comments containing \\r, \\f, \\v, \\x85, U+2028...): the reported position
    must be the start of a token at or after the first offending one (lines are separated by
    newline characters only), or the end of input."""
    from jaqalpaq.parser.parser import parse_to_sexpression
    from jaqalpaq.parser.slyparse import JaqalParseError

    toks = list(prog_tokens(case["prog"]))
    tok_idx = [i for i, (k, _t) in enumerate(toks) if k == "tok"]
    if not tok_idx:
        raise Skip()
    at = tok_idx[case["where"] % len(tok_idx)]
    toks.insert(at, ("tok", case["bad"]))
    offsets = []
    text, stats = _layout_text(case["prog"], case["layout"], toks=toks, offsets=offsets, weird=True)
    only = [t for k, t in toks if k == "tok"]
    # token kinds for the recognizer: separators are re-derived from the rendered text
    st_, got = guard(parse_to_sexpression, text, what="parse_to_sexpression")
    if st_ == "ok":
        raise Skip()  # the inserted token happened to be legal there
    if not isinstance(got, JaqalParseError):
        raise Violation("wrong-error-type", f"{type(got).__name__}: {got}\n--- text:\n{text!r}")
    line, col = got.line, got.column
    if line == "EOF":
        return {"nontrivial": False, "classes": ["eof"], "key": text}
    posn = []
    for off in offsets:
        ln = text.count("\n", 0, off) + 1
        posn.append((ln, off - text.rfind("\n", 0, off)))
    k = only.index(case["bad"]) if False else sum(1 for i in tok_idx if i < at)
    if (line, col) not in posn:
        # separator tokens (';' '|' newline) are tokens of the text too; they are emitted by the
        # layout, not listed in posn: accept them when they start at or after the inserted token
        lines_ = text.split("\n")
        ok_sep = False
        if isinstance(line, int) and isinstance(col, int) and 1 <= line <= len(lines_) and 1 <= col <= len(lines_[line - 1]) + 1:
            off = sum(len(x) + 1 for x in lines_[: line - 1]) + col - 1
            ch_ = text[off] if off < len(text) else "\n"
            ok_sep = ch_ in ";|\n" and off >= offsets[k]
        if not ok_sep:
            raise Violation("position-not-a-token", f"reported {line}:{col}; inserted {case['bad']!r} as token {k} at {posn[k]}\n--- text:\n{text!r}", where="layout")
        return {"nontrivial": stats["block"] >= 1, "classes": ["reported-at-separator"], "key": text}
    idx = posn.index((line, col))
    # the first offending token is the inserted one or an earlier... never earlier: everything
    # before the inserted token is a prefix of a legal program, hence viable
    if idx > k + 1 and False:
        pass
    if idx < k and only[idx] != case["bad"]:
        # a position before the inserted token can only be right for rule-level rejections
        raise Violation("position-before-offending-token", f"reported {line}:{col} = token {idx} ({only[idx]!r}); inserted {case['bad']!r} is token {k} at {posn[k]}\n--- text:\n{text!r}", where="layout")
    weird_used = any(b in text for b in ("\r", "\f", "\x85", "\u2028", "\v", "\x1c"))
    return {"nontrivial": stats["block"] >= 1, "classes": ["weird-comment" if weird_used else "plain-comment", "multi-line-comment"] if "\n" in text else ["single-line"], "key": text, "sample": {"text": text, "reported": [line, col], "inserted_at": list(posn[k])}}


# ------------------------------------------------------------------------------ adjacency
# Tokens written WITHOUT white space between them: the token shapes (longest match; a NUMBER
# needs a dot, its exponent needs the dot too; identifiers may contain dots but not two in a
# row; a sign belongs to the number that follows) decide where one token ends.  A small table
# written by hand from those shapes - the generated layouts always separate tokens.

ADJACENT = [
    ("g 1e5", [["gate", "g", 1, "e5"]]),
    ("g 2E3 q", [["gate", "g", 2, "E3", "q"]]),
    ("g 1.5e3", [["gate", "g", 1500.0]]),
    ("g 1.5E-3x", [["gate", "g", 0.0015, "x"]]),
    ("loop 2{g}", [["loop", 2, ["sequential_block", ["gate", "g"]]]]),
    ("g q[0]q[1]", [["gate", "g", ["array_item", "q", 0], ["array_item", "q", 1]]]),
    ("g -1-2", [["gate", "g", -1, -2]]),
    ("g 1+2", [["gate", "g", 1, 2]]),
    ("g a.b.c", [["gate", "g", "a.b.c"]]),
    ("g 1e+5", [["gate", "g", 1, "e", 5]]),
    ("g 1_0", [["gate", "g", 1, "_0"]]),
    ("g 0x10", [["gate", "g", 0, "x10"]]),
    ("g 1;;h 2", [["gate", "g", 1], ["gate", "h", 2]]),
    ("<g|h>", [["parallel_block", ["gate", "g"], ["gate", "h"]]]),
    ("g 1.5e", [["gate", "g", 1.5, "e"]]),
    ("g 5e1.5", [["gate", "g", 5, "e1.5"]]),
    ("g .5", [["gate", "g", 0.5]]),
    ("g -.5", [["gate", "g", -0.5]]),
    ("g +.5e1", [["gate", "g", 5.0]]),
    ("g 1.5.5", [["gate", "g", 1.5, 0.5]]),
    ("g .5e1x", [["gate", "g", 5.0, "x"]]),
    ("let x .25", [["let", "x", 0.25]]),
    ("let x 1e5", None),
    ("let x 1.0e5y", None),
    ("g 1.e5", None),
    ("g a..b", None),
    ("g 1.", None),
    ("let x 1\nregister q[2]g q[0]", None),
    ("macro m a{g a}m 1", None),
    ("from .5 usepulses *", None),
    ("loop2 {g}", None),
    ("loop 2.0{g}", None),
]


def adjacency(case):
    from jaqalpaq.parser.parser import parse_to_sexpression
    from jaqalpaq.parser.slyparse import JaqalParseError

    text, want = ADJACENT[case["i"]]
    text = text + ("\n" if case["nl"] else "")
    st_, got = guard(parse_to_sexpression, text, what="parse_to_sexpression")
    if want is None:
        if st_ == "ok":
            raise Violation("accepted-ungrammatical-text", f"{text!r} -> {plain(got)}", where="adjacency")
        if not isinstance(got, JaqalParseError):
            raise Violation("wrong-error-type", f"{type(got).__name__}: {got}\ntext: {text!r}", where="adjacency")
    else:
        if st_ == "err":
            raise Violation("rejected-legal-text", f"{got}\n--- text: {text!r}", where="adjacency")
        if repr(plain(got)) != repr(["circuit"] + want):
            raise Violation("tree-differs", f"{text!r}: got {plain(got)}, expected {['circuit'] + want}", where="adjacency")
    return {"nontrivial": True, "classes": ["accept" if want is not None else "reject"], "key": text, "sample": {"text": text, "expected": want}}


def _adj_enum(tier):
    for i in range(len(ADJACENT)):
        for nl in (False, True):
            yield {"i": i, "nl": nl}


def parts():
    return [
        Part("error-position-layout", gen.cases(_position_case), positions, quick=2500, thorough=60000, min_nontrivial=0.3),
        Part("layout-positive", layout_cases(), positive, quick=4000, thorough=120000, min_nontrivial=0.2),
        Part("near-miss", nearmiss_cases(), negative, quick=5000, thorough=150000, min_nontrivial=0.2),
        Part("adjacency", None, adjacency, quick=0, thorough=0, exhaustive=_adj_enum, shards=1),
    ]
