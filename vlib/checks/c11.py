"""C11 — analyses and transformations never modify their input circuit."""

import numpy as np

from ..common import Violation, Skip, guard, parse, generate, extract, render, Ref, Invalid
from ..harness import Part, step_budget
from .. import gen, gates, gen_emul, refexec

PROPERTY = "C11"
RULE = (
    "A program (executable programs over native gates with macros, lets, aliases, subcircuits, parallel blocks; "
    "and general grammar-generated programs with anonymous gates) is parsed ONCE into a shared circuit object; a "
    "drawn history of 1-7 library calls (expand_macros, fill_in_let(ov), fill_in_map, expand_subcircuits with default "
    "and with caller-named bounding gates, "
    "normalize_blocks_with_unitary_timing, get_used_qubit_indices of the circuit, get_used_qubit_indices of every "
    "top-level statement on its own right after ANOTHER circuit with a larger register was analysed (no answer may "
    "name a qubit this circuit does not have), generate_jaqal_program, run_jaqal_circuit, "
    "parse_jaqal_output_list; repetitions allowed) is applied to that same object.  After EVERY call: a deep "
    "structural fingerprint of the shared circuit (everything reachable through __dict__, lists, dicts, tuples, "
    "slices: types, primitive values, container shapes, element identities; plus repr) is unchanged, and the "
    "call's outcome (result circuit ==, generated text, used-qubit sets, probabilities and readouts with the "
    "sampler re-seeded, or the JaqalError message) equals the outcome of the same call on a freshly parsed copy.  "
    "The result of the latest successful transformation is an input like any other: every later call is also "
    "applied to it (so passes are chained) and must leave it unchanged too.  With a native table that lacks "
    "prepare_all / measure_all the execution calls are made as well (they may refuse, they may not touch the table).  "
    "Non-trivial = >= 3 calls, >= 2 distinct, at least one transformation followed by a different call. "
    "distinct = (text, history)."
)
ASSUMPTIONS = ["calls that legitimately raise JaqalError are fine (their outcome must still be reproducible on a fresh copy)"]

OPS = ["mac", "let", "map", "sub", "subx", "norm", "used", "useds", "gen", "run", "out"]
TRANSFORMS = {"mac", "let", "map", "sub", "subx", "norm"}


def _call(op, circ, env, n_visits, nq, np_seed):
    from jaqalpaq.core.algorithm import expand_macros, fill_in_let, expand_subcircuits, normalize_blocks_with_unitary_timing, get_used_qubit_indices
    from jaqalpaq.core.algorithm.fill_in_map import fill_in_map
    from jaqalpaq.core.result import parse_jaqal_output_list
    from jaqalpaq.emulator import run_jaqal_circuit

    if op == "mac":
        return guard(expand_macros, circ, what=op)
    if op == "let":
        ov = dict(env) if env else None
        r = guard(fill_in_let, circ, ov, what=op)
        if ov is not None and (ov != env or list(ov) != list(env)):
            raise Violation("input-modified", f"fill_in_let changed the override dictionary it was given: {env} -> {ov}", where="override-dict")
        return r
    if op == "map":
        return guard(fill_in_map, circ, what=op)
    if op == "sub":
        return guard(expand_subcircuits, circ, what=op)
    if op == "subx":
        # caller-supplied bounding gates that are not in the circuit's native gate table
        return guard(expand_subcircuits, circ, prepare_def="prep_zz", measure_def="meas_zz", what=op)
    if op == "norm":
        return guard(normalize_blocks_with_unitary_timing, circ, what=op)
    if op == "used":
        return guard(get_used_qubit_indices, circ, what=op)
    if op == "useds":
        # the analysis of every top-level statement on its own (one that reaches a busy gate may
        # be refused: which qubits "all" are is the circuit's business)
        # - after ANOTHER circuit (a larger register) went through the same analysis
        from .c13 import _decoy

        guard(get_used_qubit_indices, _decoy(nq + 2), what="used (another circuit)")
        return "ok", [guard(get_used_qubit_indices, s_, what=op) for s_ in circ.body.statements]
    if op == "gen":
        return guard(generate, circ, what=op)
    if op == "run":
        np.random.seed(np_seed)
        with step_budget(5 * 10**6):
            return guard(run_jaqal_circuit, circ, what=op)
    if op == "out":
        outs = [(i * 7 + 3) % (2**nq) for i in range(n_visits)]
        with step_budget(5 * 10**6):
            return guard(parse_jaqal_output_list, circ, outs, what=op)
    raise ValueError(op)


def _summary(op, st_, r):
    if st_ == "err":
        return ("err", type(r).__name__, str(r))
    if op in ("mac", "let", "map", "sub", "subx", "norm"):
        s2, t = guard(generate, r, what="generate")
        return ("circuit", r, t if s2 == "ok" else ("err", str(t)))
    if op == "used":
        return ("used", {k: sorted(v) for k, v in dict(r).items()})
    if op == "useds":
        return ("useds", [("err", type(x).__name__) if s_ == "err" else {k: sorted(v) for k, v in dict(x).items()} for s_, x in r])
    if op == "gen":
        return ("text", r)
    if op in ("run", "out"):
        subs = []
        for sc in r.subcircuits:
            p = getattr(sc, "simulated_probability_by_int", None)
            subs.append((None if p is None else np.asarray(p).tobytes(), np.asarray(sc.relative_frequency_by_int).tobytes()))
        return ("result", subs, [(x.index, x.subcircuit.index, x.as_int) for x in r.readouts])
    raise ValueError(op)


def _same(a, b):
    if a[0] != b[0]:
        return False
    if a[0] == "circuit":
        return (a[1] == b[1]) and a[2] == b[2]
    return a[1:] == b[1:]


def check(case):
    prog, env, hist, mode = case["prog"], case.get("env") or {}, case["history"], case["mode"]
    text = render.to_text(prog)
    try:
        Ref(prog, env).validate()
        ref = Ref(prog)  # every call gets the shared, un-substituted circuit: declared let values apply
        ref.validate()
        nq = ref.reg_size()
    except Invalid:
        raise Skip()
    n_visits = 0
    kw = {}
    if mode == "native-partial":
        # a native gate table WITHOUT prepare_all / measure_all (nothing can be executed, but
        # every pass and analysis must still leave the table alone)
        g = gates.make_gates(case["gate_seed"])
        kw["inject_pulses"] = {k: v for k, v in g.items() if k not in ("prepare_all", "measure_all")}
    if mode == "native":
        kw["inject_pulses"] = gates.make_gates(case["gate_seed"])
    n_visits_env = 0
    if mode in ("native", "native-partial"):
        try:
            tree = refexec.expand(ref)
            acc = refexec.accept(tree)
            if acc[0] == "ok" and not refexec.static_errors(tree, nq):
                if refexec.unrolled_size(tree) > 1500:
                    raise Skip()
                n_visits = len(refexec.execute(tree, acc[2]))
            # a chained circuit that went through fill_in_let(overrides) is visited as the
            # overriding values say
            tree_e = refexec.expand(Ref(prog, env))
            acc_e = refexec.accept(tree_e)
            if acc_e[0] == "ok" and not refexec.static_errors(tree_e, Ref(prog, env).reg_size()):
                if refexec.unrolled_size(tree_e) > 1500:
                    raise Skip()
                n_visits_env = len(refexec.execute(tree_e, acc_e[2]))
        except Invalid:
            raise Skip()
    st_, shared = guard(parse, text, what="parse", **kw)
    if st_ == "err":
        raise Skip()
    fp0 = extract.fingerprint(shared)
    rp0 = repr(shared)
    done = []
    chain_let = False
    chain = None  # the result of the latest successful transformation: an input like any other
    for op in hist:
        if op in ("run", "out") and mode == "anon":
            continue
        st_, r = _call(op, shared, env, n_visits, nq, case["np_seed"])
        got = _summary(op, st_, r)
        done.append(op)
        if op == "useds":
            for ans in got[1]:
                if isinstance(ans, dict) and any(k_ >= nq for v_ in ans.values() for k_ in v_):
                    raise Violation("result-depends-on-history", f"the analysis of a statement of this circuit ({nq} qubits) answers {ans}: qubits of the circuit analysed before it\n--- program:\n{text}", where="useds-other-circuit")
        if chain is not None:
            cfp0, crp0 = extract.fingerprint(chain), repr(chain)
            st_c, r_c = _call(op, chain, env, n_visits_env if chain_let else n_visits, nq, case["np_seed"])
            if extract.fingerprint(chain) != cfp0 or repr(chain) != crp0:
                raise Violation("input-modified", f"{op} modified its input, the result of an earlier pass (calls so far {done})\n--- overrides {env}\n--- program:\n{text}", where="chained:" + op)
            if op in TRANSFORMS and st_c == "ok":
                chain = r_c
                chain_let = chain_let or (op == "let" and bool(env))
        elif op in TRANSFORMS and st_ == "ok":
            chain = r
            chain_let = op == "let" and bool(env)
        fp1 = extract.fingerprint(shared)
        if fp1 != fp0 or repr(shared) != rp0:
            what = "repr" if fp1 == fp0 else "structure"
            raise Violation("input-modified", f"after {done} the shared input circuit changed ({what})\n--- overrides {env}\n--- program:\n{text}", where=op)
        st2, fresh = guard(parse, text, what="parse", **kw)
        if st2 == "err":
            raise Skip()
        st3, r3 = _call(op, fresh, env, n_visits, nq, case["np_seed"])
        want = _summary(op, st3, r3)
        if not _same(got, want):
            raise Violation("result-depends-on-history", f"call {op} after {done[:-1]} on the shared object gave a different result than on a fresh copy\nshared: {str(got)[:600]}\nfresh:  {str(want)[:600]}\n--- overrides {env}\n--- program:\n{text}", where=op)
    nt = len(done) >= 3 and len(set(done)) >= 2 and any(a in TRANSFORMS and b != a for a, b in zip(done, done[1:]))
    return {"nontrivial": nt, "classes": ["mode:" + mode, "len:%d" % len(done)] + sorted({"op:" + o for o in done}), "key": text + repr(hist) + repr(sorted(env.items())), "sample": {"text": text, "history": hist, "overrides": env}}


def cases():
    anon_cfg = gen.Cfg(general_numbers=False, max_depth=4, macro_bias=1, reg_args=False)

    def mk(ch):
        hist = [ch.pick(OPS) for _ in range(ch.int(1, 7))]
        if ch.int(0, 2) > 0:
            c = gen_emul.make_emulable(ch, max_reg=4)
            partial = ch.int(0, 3) == 0 and not any(s[0] == "g" and s[1] in ("prepare_all", "measure_all") for s in __import__("vlib.model", fromlist=["all_stmts"]).all_stmts(c["prog"]))
            return {"prog": c["prog"], "env": c["env"], "gate_seed": c["gate_seed"], "mode": "native-partial" if partial else "native", "history": hist, "np_seed": ch.int(0, 10**6)}
        prog, _b = gen.make_prog(ch, anon_cfg)
        env = gen.overrides(ch, prog) if ch.bool() else {}
        return {"prog": prog, "env": env, "gate_seed": 0, "mode": "anon", "history": hist, "np_seed": 1}

    return gen.cases(mk)


def parts():
    return [Part("shared-circuit-histories", cases(), check, quick=2500, thorough=60000, min_nontrivial=0.2)]
