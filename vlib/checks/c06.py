"""C06 — every qubit reference resolves to the right physical qubit through aliases."""

import itertools

import numpy as np

from ..common import Violation, Skip, guard, parse, extract, render, same_meaning, show, Ref, Invalid
from ..harness import Part
from .. import gen, gates, refexec
from ..model import empty_prog, is_int

PROPERTY = "C06"
RULE = (
    "chains: a register of size 1-12, 0-5 lets and an alias chain of depth 1-5 mixing whole / single / strided-slice "
    "forms with literal, defaulted or let-valued bounds; EVERY valid index into EVERY alias (and the register) is "
    "written as `X ref` at top level, inside nested blocks (subcircuit blocks among them), and reached through macros (alias passed as register "
    "argument and indexed inside; alias indexed by a parameter).  The reference index (element i of "
    "src[start:stop:step] is element start+i*step of src, composed along the chain) must be what every consumer "
    "reports: NamedQubit.resolve_qubit(); fill_in_map(fill_in_let(c)) (rewrites to the fundamental register's "
    "qubit idx at every depth - no reference is left on an alias - and leaves the meaning unchanged); get_used_qubit_indices; the pyGSTi label; and the emulator - "
    "`prepare_all; X ref; measure_all` puts probability 1 on integer 1 << idx (up to 8 sampled references per case, "
    "register size <= 8; through run_jaqal_circuit and through the backend's job interface on the expanded circuit); "
    "macro calls are also analysed unexpanded, one by one and several together in a circuit that holds nothing else "
    "(get_used_qubit_indices binds the arguments); with "
    "a drawn override dictionary the same references are resolved after fill_in_let(c, ov) and must follow the "
    "overriding values; every register and alias reports the reference size and rejects the index equal to it.  two-level: ALL chains register(n) -> slice -> slice -> index for n <= 4 (quick) / n <= 7 "
    "(thorough) are enumerated exhaustively for resolve_qubit, fill_in_map and used-qubits.  Non-trivial = chain "
    "depth >= 2 or step >= 2 or start >= 1. distinct = program text."
)
ASSUMPTIONS = ["pyGSTi label consumer is exercised only if jaqalpaq.emulator.pygsti.circuit imports (it does with the installed pyGSTi 0.10)"]

_PYGSTI = []


def pygsti_label():
    if not _PYGSTI:
        try:
            from jaqalpaq.emulator.pygsti.circuit import pygsti_label_from_statement

            _PYGSTI.append(pygsti_label_from_statement)
        except Exception:  # pragma: no cover - consumer unavailable
            _PYGSTI.append(None)
    return _PYGSTI[0]


def _chain_case(ch):
    b = gen.Builder(ch, gen.Cfg(max_lets=4, max_maps=5, max_reg=12, usepulses=False, general_numbers=False))
    prog = empty_prog()
    b.header(prog)
    env = gen.overrides(ch, prog) if ch.bool() else {}
    return {"prog": prog, "pick": ch.ints(8, 0, 10**6), "np_seed": ch.int(0, 10**6), "env": env}


def _all_refs(prog, ref):
    refs = []
    names = [prog["reg"][0]] + [m[0] for m in prog["maps"]]
    for nm in names:
        kind, el, _d = ref.elems(nm)
        if kind == "q":
            refs.append((["id", nm], el))
        else:
            for i, k in enumerate(el):
                refs.append((["ix", nm, i], k))
                lets = [n for n, _v in prog["lets"] if is_int(ref.let_value(n)) and ref.let_value(n) == i]
                if lets:
                    refs.append((["ix", nm, lets[0]], k))
    return refs


def _qubit_of(stmt):
    (v,) = list(stmt.parameters.values())
    return v


def chains(case):
    from jaqalpaq.core.algorithm import fill_in_let, get_used_qubit_indices
    from jaqalpaq.core.algorithm.fill_in_map import fill_in_map
    from jaqalpaq.core.register import NamedQubit
    from jaqalpaq.emulator import run_jaqal_circuit

    prog = dict(case["prog"])
    try:
        ref = Ref(prog)
        n = ref.reg_size()
    except Invalid:
        raise Skip()
    refs = _all_refs(prog, ref)
    regname = prog["reg"][0]
    regs = [(m[0], ref.elems(m[0])) for m in prog["maps"]]
    reglike = [(regname, tuple(range(n)))] + [(nm, e[1]) for nm, e in regs if e[0] == "reg"]
    # body: every reference directly, then nested, then through macros
    body = [["g", "X", [a]] for a, _k in refs]
    expected = [k for _a, k in refs]
    nested = [["seq", [["par", [["g", "X", [a]]]]]] for a, _k in refs[:: max(1, len(refs) // 6)]]
    # ... and inside subcircuit blocks (with and without a count)
    nested += [["sub", None if i % 2 else 3, [["g", "X", [a]], ["par", [["g", "X", [a]]]]]] for i, (a, _k) in enumerate(refs[1 :: max(1, len(refs) // 3)][:3])]
    macros = [
        {"name": "viaarr", "params": ["p", "o"], "body": ["seq", [["g", "X", [["ix", "p", "o"]]]]]},
        {"name": "viaq", "params": ["p"], "body": ["seq", [["g", "X", [["id", "p"]]]]]},
    ]
    calls, call_expected = [], []
    for nm, el in reglike:
        for i in range(len(el)):
            calls.append(["g", "viaarr", [["id", nm], ["n", i]]])
            call_expected.append(el[i])
    for a, k in refs[:: max(1, len(refs) // 8)]:
        calls.append(["g", "viaq", [a]])
        call_expected.append(k)
    # ... and macros that name a register-like object THEMSELVES and index it by a parameter
    for j, (nm, el) in enumerate(reglike):
        if not el or j % 2 != (case["pick"][0] if case.get("pick") else 0) % 2:
            continue
        pn = "o"
        while pn in {x[0] for x in reglike} | {l[0] for l in prog["lets"]} | {m_[0] for m_ in prog["maps"]}:
            pn += "_"  # a parameter of that name would shadow the register-like object
        macros.append({"name": "vix%d" % j, "params": [pn], "body": ["seq", [["g", "X", [["ix", nm, pn]]]]]})
        for i in range(len(el)):
            calls.append(["g", "vix%d" % j, [["n", i]]])
            call_expected.append(el[i])
    prog["macros"] = macros
    prog["body"] = body + nested + calls
    text = render.to_text(prog)
    nat = gates.make_gates(0)
    st_, c = guard(parse, text, inject_pulses=nat, what="parse")
    if st_ == "err":
        raise Violation("rejected-valid-program", f"{c}\n--- program:\n{text}")
    label = pygsti_label()
    # every register-like object reports the reference size
    st_, cf = guard(fill_in_let, c, what="fill_in_let")
    if st_ == "ok":
        for nm, el in reglike:
            robj = cf.registers[nm]
            st_, sz = guard(lambda r=robj: int(r.size), what="Register.size")
            if st_ == "err" or sz != len(el):
                raise Violation("register-size", f"{nm}: size {sz}, reference {len(el)}\n--- program:\n{text}")
            st_, bad = guard(lambda r=robj, n_=len(el): r[n_].resolve_qubit(), what="index == size")
            if st_ == "ok":
                raise Violation("index-equal-to-size-accepted", f"{nm}[{len(el)}] resolves to {bad}\n--- program:\n{text}")
    for s, (a, k) in zip(c.body.statements, refs):
        q = _qubit_of(s)
        st_, rq = guard(q.resolve_qubit, what="resolve_qubit")
        if st_ == "err":
            raise Violation("resolve-rejected", f"{render._arg_tokens(a)}: {rq}\n--- program:\n{text}")
        if not rq[0].fundamental or rq[0].name != regname or rq[1] != k:
            raise Violation("resolve_qubit", f"reference {a}: resolve_qubit -> {rq[0].name}[{rq[1]}], expected {regname}[{k}]\n--- program:\n{text}")
        st_, u = guard(get_used_qubit_indices, s, what="get_used_qubit_indices")
        if st_ == "err" or {kk: set(v) for kk, v in dict(u).items() if v} != {regname: {k}}:
            raise Violation("used-qubits", f"reference {a}: {u}, expected {{{regname!r}: {{{k}}}}}\n--- program:\n{text}")
        if label is not None:
            st_, lb = guard(label, s, what="pygsti_label_from_statement")
            if st_ == "err" or tuple(lb.sslbls) != (k,):
                raise Violation("pygsti-label", f"reference {a}: label {lb}, expected qubit {k}\n--- program:\n{text}")
    # alias fill-in (as the parser applies it: macros expanded, lets substituted, then aliases)
    from jaqalpaq.core.algorithm import expand_macros

    st_, f = guard(expand_macros, c, what="expand_macros")
    if st_ == "ok":
        st_, f = guard(fill_in_let, f, what="fill_in_let")
    if st_ == "ok":
        st_, f = guard(fill_in_map, f, what="fill_in_map")
    if st_ == "err":
        raise Violation("fill-in-map-rejected", f"{f}\n--- program:\n{text}")
    filled = list(f.body.statements)
    tail = filled[len(refs) + len(nested) :]
    if len(tail) != len(calls):
        raise Violation("fill_in_map", f"{len(tail)} statements for {len(calls)} expanded macro calls\n--- program:\n{text}")
    for s, (a, k) in list(zip(filled, refs)) + list(zip(tail, zip(calls, call_expected))):
        q = _qubit_of(s)
        if not isinstance(q, NamedQubit) or not q.alias_from.fundamental or q.alias_from.name != regname or q.alias_index != k:
            raise Violation("fill_in_map", f"reference {a} rewritten to {q!r}, expected {regname}[{k}]\n--- program:\n{text}")
    left = extract.find_objects(f, lambda x: isinstance(x, NamedQubit) and not x.alias_from.fundamental, include_macros=False, include_header=False)
    if left:
        raise Violation("fill_in_map", f"references left on an alias after fill_in_map (at any depth, subcircuit blocks included): {left[:3]}\n--- program:\n{text}", where="alias-left")
    try:
        m0, m1 = extract.meaning(c), extract.meaning(f)
        mref = ref.__class__(prog).meaning()
    except (extract.ExtractError, Invalid) as e:
        raise Violation("meaning-unresolvable", f"{e}\n--- program:\n{text}")
    if not same_meaning(m0, m1) or not same_meaning(mref, m1):
        raise Violation("fill_in_map-changes-meaning", f"reference {show(mref)}\nbefore {show(m0)}\nafter  {show(m1)}\n--- program:\n{text}")
    # alias fill-in BEFORE macro expansion may refuse (a body that indexes by a parameter cannot
    # be resolved yet), but an answer must be right: expanding it afterwards gives the same
    # qubits.  (A variant of the program without whole aliases as macro arguments, which the
    # pass always refuses.)
    vix = [(m_, [k_ for s_, k_ in zip(calls, call_expected) if s_[1] == m_["name"]]) for m_ in macros if m_["name"].startswith("vix")]
    if vix:
        pe_ = dict(prog)
        pe_["macros"] = [m_ for m_, _ks in vix]
        pe_["body"] = [s_ for s_ in calls if s_[1].startswith("vix")]
        want_e = [k_ for s_, k_ in zip(calls, call_expected) if s_[1].startswith("vix")]
        te_ = render.to_text(pe_)
        st_, ce_ = guard(parse, te_, inject_pulses=nat, what="parse")
        if st_ == "ok":
            st_, early = guard(fill_in_map, ce_, what="fill_in_map (unexpanded)")
            if st_ == "ok":
                st_, ee = guard(lambda: fill_in_let(expand_macros(early)), what="expand after early fill_in_map")
                if st_ == "err":
                    raise Violation("fill_in_map", f"the result of fill_in_map on the unexpanded circuit cannot be expanded: {ee}\n--- program:\n{te_}", where="early")
                got_e = []
                for q_ in extract.find_objects(ee, lambda x: isinstance(x, NamedQubit), include_header=False):
                    rq = q_.resolve_qubit()
                    got_e.append(rq[1] if rq[0].name == regname else None)
                if got_e != want_e:
                    raise Violation("fill_in_map", f"fill_in_map before macro expansion changes the qubits of the macro calls: {got_e}, expected {want_e}\n--- program:\n{te_}", where="early")
    # macro calls analysed WITHOUT expansion (the analysis binds the arguments itself)
    call_objs = list(c.body.statements)[len(refs) + len(nested) :]
    for s_obj, s_model, k in zip(call_objs, calls, call_expected):
        st_, u = guard(get_used_qubit_indices, s_obj, what="get_used_qubit_indices(macro call)")
        if st_ == "err" or {kk: set(v) for kk, v in dict(u).items() if v} != {regname: {k}}:
            raise Violation("used-qubits", f"macro call {s_model}: {u}, expected {{{regname!r}: {{{k}}}}}\n--- program:\n{text}", where="macro-call")
    # several macro calls analysed TOGETHER (one walk over a circuit that holds nothing else): the
    # union of what each call uses - the same macro with other numbers is another call
    if calls:
        picks = sorted({p_ % len(calls) for p_ in case["pick"][:4]})
        p3 = dict(prog)
        p3["body"] = [calls[i] for i in picks] if len(picks) % 2 else [["seq", [calls[i] for i in picks]]]
        t3 = render.to_text(p3)
        st_, c3 = guard(parse, t3, inject_pulses=nat, what="parse")
        if st_ == "ok":
            st_, u3 = guard(get_used_qubit_indices, c3, what="get_used_qubit_indices(circuit of macro calls)")
            want3 = {call_expected[i] for i in picks}
            if st_ == "err" or set(dict(u3).get(regname, ())) != want3:
                raise Violation("used-qubits", f"circuit of macro calls only: {u3}, expected {sorted(want3)}\n--- program:\n{t3}", where="macro-calls-together")
    # resolve_qubit(context): the macro body's own qubit object `p[o]`, resolved under every binding
    body_q = _qubit_of(c.macros["viaarr"].body.statements[0])
    for nm, el in reglike:
        robj = c.registers[nm]
        for i in range(len(el)):
            st_, rq = guard(body_q.resolve_qubit, {"p": robj, "o": i}, what="resolve_qubit(context)")
            if st_ == "err" or rq[0].name != regname or rq[1] != el[i]:
                raise Violation("resolve_qubit", f"macro body qubit p[o] under p={nm}, o={i}: {rq if st_ == 'err' else (rq[0].name, rq[1])}, expected {regname}[{el[i]}]\n--- program:\n{text}", where="context")
    # the same chain under an override dictionary: every consumer must follow the overriding values
    env = case.get("env") or {}
    if env:
        try:
            ref_e = Ref(prog, env)
            refs_e = _all_refs(prog, ref_e)
            ne = ref_e.reg_size()
        except Invalid:
            refs_e = None
        if refs_e is not None:
            pe = dict(prog)
            pe["macros"] = []
            pe["body"] = [["g", "X", [a]] for a, _k in refs_e]
            te = render.to_text(pe)
            st_, ce = guard(parse, te, inject_pulses=nat, what="parse")
            if st_ == "ok":
                st_, fe = guard(fill_in_let, ce, dict(env), what="fill_in_let(overrides)")
                if st_ == "err":
                    raise Violation("fill-in-let-rejected", f"{fe}\n--- overrides {env}\n--- program:\n{te}")
                for s, (a, k) in zip(fe.body.statements, refs_e):
                    rq = _qubit_of(s).resolve_qubit()
                    if rq[0].name != regname or rq[1] != k:
                        raise Violation("resolve_qubit", f"under overrides {env}: reference {a} -> {rq[0].name}[{rq[1]}], expected {regname}[{k}]\n--- program:\n{te}", where="override")
                st_, fm = guard(fill_in_map, fe, what="fill_in_map")
                if st_ == "ok":
                    for s, (a, k) in zip(fm.body.statements, refs_e):
                        q = _qubit_of(s)
                        if q.alias_from.name != regname or q.alias_index != k:
                            raise Violation("fill_in_map", f"under overrides {env}: reference {a} rewritten to {q!r}, expected {regname}[{k}]\n--- program:\n{te}", where="override")
    # whole-circuit used set
    st_, u = guard(get_used_qubit_indices, c, what="get_used_qubit_indices(circuit)")
    want_all = set(expected) | set(call_expected)
    if st_ == "err" or set(dict(u).get(regname, ())) != want_all:
        raise Violation("used-qubits", f"circuit: {u}, expected {sorted(want_all)}\n--- program:\n{text}")
    # emulator: sampled references, direct and through macros
    if n <= 8:
        allstm = list(zip(body, expected)) + list(zip(calls, call_expected))
        chosen = [allstm[p % len(allstm)] for p in case["pick"]]
        p2 = dict(prog)
        p2["body"] = []
        for s, _k in chosen:
            p2["body"] += [["g", "prepare_all", []], s, ["g", "measure_all", []]]
        t2 = render.to_text(p2)
        st_, c2 = guard(parse, t2, inject_pulses=nat, what="parse")
        if st_ == "err":
            raise Violation("rejected-valid-program", f"{c2}\n--- program:\n{t2}")
        np.random.seed(case["np_seed"])
        st_, res = guard(run_jaqal_circuit, c2, what="run_jaqal_circuit")
        if st_ == "err":
            raise Violation("emulator-rejected", f"{res}\n--- program:\n{t2}")
        for sc, (s, k) in zip(res.subcircuits, chosen):
            p = np.asarray(sc.simulated_probability_by_int)
            if abs(p[1 << k] - 1) > 1e-9:
                raise Violation("emulator-acts-on-wrong-qubit", f"statement {s}: expected qubit {k}; outcome probabilities {dict((i, round(float(x), 3)) for i, x in enumerate(p) if x > 1e-9)}\n--- program:\n{t2}")
        # the backend's own job interface on the expanded circuit (aliases still in place)
        from jaqalpaq.core.algorithm import expand_subcircuits
        from jaqalpaq.emulator.unitary import UnitarySerializedEmulator

        st_, resj = guard(lambda: UnitarySerializedEmulator()(expand_macros(fill_in_let(expand_subcircuits(c2)))).execute(), what="backend(circuit).execute()")
        if st_ == "err":
            raise Violation("emulator-rejected", f"[job interface] {resj}\n--- program:\n{t2}", where="job")
        for sc, (s, k) in zip(resj.subcircuits, chosen):
            p = np.asarray(sc.simulated_probability_by_int)
            if abs(p[1 << k] - 1) > 1e-9:
                raise Violation("emulator-acts-on-wrong-qubit", f"[backend(circuit).execute()] statement {s}: expected qubit {k}; outcome probabilities {dict((i, round(float(x), 3)) for i, x in enumerate(p) if x > 1e-9)}\n--- program:\n{t2}", where="job")
    depth = 0
    for m in prog["maps"]:
        d, src = 1, m[1]
        while src != regname:
            src = [x for x in prog["maps"] if x[0] == src][0][1]
            d += 1
        depth = max(depth, d)
    strided = any(m[2] and m[2][0] == "s" and is_int(m[2][3]) and m[2][3] > 1 for m in prog["maps"])
    offset = any(m[2] and m[2][0] == "s" and m[2][1] not in (None, 0) for m in prog["maps"])
    classes = ["depth:%d" % depth, "n:%s" % ("1-4" if n <= 4 else "5-8" if n <= 8 else "9-12"), "refs:%s" % ("<10" if len(refs) < 10 else "10+")]
    if strided:
        classes.append("strided")
    if any(m[2] and any(isinstance(x, str) for x in m[2][1:]) for m in prog["maps"]):
        classes.append("let-bound")
    if any(m[2] and any(x is None for x in m[2][1:]) for m in prog["maps"]):
        classes.append("default-bound")
    return {"nontrivial": depth >= 2 or strided or offset, "classes": classes, "key": text, "sample": {"text": render.to_text(case["prog"]), "references_checked": len(refs) + len(calls)}}


# ------------------------------------------------------------------------------ exhaustive two-level chains


def _slices(n):
    for start in range(n):
        for stop in range(start + 1, n + 1):
            for step in range(1, n + 1):
                yield (start, stop, step)


def _enum(tier):
    top = 7 if tier == "thorough" else 4
    for n in range(1, top + 1):
        for s1 in _slices(n):
            yield {"n": n, "s1": list(s1)}


def two_level(case):
    """One (n, first slice): all second slices and all indices."""
    from jaqalpaq.core.algorithm import get_used_qubit_indices
    from jaqalpaq.core.algorithm.fill_in_map import fill_in_map

    n, s1 = case["n"], tuple(case["s1"])
    e1 = list(range(n))[s1[0] : s1[1] : s1[2]]
    nat = gates.make_gates(0)
    count = 0
    for s2 in _slices(len(e1)):
        e2 = e1[s2[0] : s2[1] : s2[2]]
        lines = [f"register q[{n}]", f"map a q[{s1[0]}:{s1[1]}:{s1[2]}]", f"map b a[{s2[0]}:{s2[1]}:{s2[2]}]"]
        lines += [f"X b[{i}]" for i in range(len(e2))]
        text = "\n".join(lines) + "\n"
        st_, c = guard(parse, text, inject_pulses=nat, what="parse")
        if st_ == "err":
            raise Violation("rejected-valid-program", f"{c}\n--- program:\n{text}", where="two-level")
        st_, f = guard(fill_in_map, c, what="fill_in_map")
        if st_ == "err":
            raise Violation("fill-in-map-rejected", f"{f}\n--- program:\n{text}", where="two-level")
        for nm, el in (("a", e1), ("b", e2)):
            if int(c.registers[nm].size) != len(el):
                raise Violation("register-size", f"{nm}: size {c.registers[nm].size}, reference {len(el)}\n--- program:\n{text}", where="two-level")
            st_, bad = guard(lambda r=c.registers[nm], n_=len(el): r[n_].resolve_qubit(), what="index == size")
            if st_ == "ok":
                raise Violation("index-equal-to-size-accepted", f"{nm}[{len(el)}] resolves to {bad}\n--- program:\n{text}", where="two-level")
        for i, (s, sf) in enumerate(zip(c.body.statements, f.body.statements)):
            q = _qubit_of(s)
            rq = q.resolve_qubit()
            if rq[0].name != "q" or rq[1] != e2[i]:
                raise Violation("resolve_qubit", f"b[{i}] -> {rq[0].name}[{rq[1]}], expected q[{e2[i]}]\n--- program:\n{text}", where="two-level")
            qf = _qubit_of(sf)
            if qf.alias_from.name != "q" or qf.alias_index != e2[i]:
                raise Violation("fill_in_map", f"b[{i}] rewritten to {qf!r}, expected q[{e2[i]}]\n--- program:\n{text}", where="two-level")
            u = dict(get_used_qubit_indices(s))
            if {k: set(v) for k, v in u.items() if v} != {"q": {e2[i]}}:
                raise Violation("used-qubits", f"b[{i}]: {u}\n--- program:\n{text}", where="two-level")
            count += 1
    return {"nontrivial": s1[2] >= 2 or s1[0] >= 1 or len(e1) >= 2, "classes": ["n:%d" % n], "key": repr(case), "sample": {"n": n, "first_slice": list(s1), "triples_checked": count}}


# ------------------------------------------------------------------------------ pyGSTi circuits


def pygsti_circuits(case):
    """The pyGSTi consumer, on whole executable programs: every gate the emulator serialises
    (macros expanded, lets substituted, aliases NOT filled in) is labelled with
    pygsti_label_from_statement and the label - gate name, qubits, classical arguments - is
    compared with the reference's execution of that subcircuit.  (Whole-circuit conversion,
    pygsti_circuit_from_circuit, cannot be exercised here: the installed pyGSTi 0.10.2 is
    outside the range the repository declares, <0.9.11, and refuses the list-valued line
    labels of every CircuitLabel the visitor builds.)"""
    from .. import gen_emul, refexec  # noqa: F401
    from .c03 import ref_states  # noqa: F401
    from jaqalpaq.core.algorithm import expand_macros, fill_in_let, expand_subcircuits
    from jaqalpaq.core.algorithm.walkers import DiscoverSubcircuits

    label = pygsti_label()
    if label is None:
        raise Skip()
    prog, gate_seed = case["prog"], case["gate_seed"]
    try:
        ref = Ref(prog, {})
        ref.check_static()
        n = ref.reg_size()
        tree = refexec.expand(ref)
        acc = refexec.accept(tree)
    except Invalid:
        raise Skip()
    if acc[0] != "ok" or refexec.static_errors(tree, n) or refexec.unrolled_size(tree) > 1500:
        raise Skip()
    _ok, nsub, sites = acc
    visits = refexec.execute(tree, sites, lambda st, name, vals: st + [(name, vals)], lambda: [])
    want = {}
    for i, st in visits:
        if isinstance(st, str):
            raise Skip()  # ambiguous visit (zero-count loop around half a bracket, DESIGN 8.1)
        want.setdefault(i, st)
    text = render.to_text(prog)
    nat = gates.make_gates(gate_seed)
    st_, c = guard(parse, text, inject_pulses=nat, what="parse")
    if st_ == "err":
        raise Skip()
    st_, e = guard(lambda: expand_macros(fill_in_let(expand_subcircuits(c))), what="expand")
    if st_ == "err":
        raise Skip()
    st_, traces = guard(lambda: DiscoverSubcircuits().visit(e), what="DiscoverSubcircuits")
    if st_ == "err" or len(traces) != nsub:
        raise Skip()  # C12's business
    ctx = f"--- program:\n{text}"
    ngates = 0
    from jaqalpaq.core.algorithm.walkers import TraceSerializer

    for i, tr in enumerate(traces):
        if i not in want:
            continue
        st_, seq = guard(lambda tr=tr: list(TraceSerializer(tr).visit(e)), what="TraceSerializer")
        if st_ == "err":
            raise Skip()
        exp = [(name, vals) for name, vals in want[i] if name not in ("prepare_all", "measure_all")]
        got = [g for g in seq if g.name not in ("prepare_all", "measure_all")]
        if [g.name for g in got] != [name for name, _v in exp]:
            raise Skip()  # gate order of the serializer is C03's business
        for g, (name, vals) in zip(got, exp):
            st_, lb = guard(label, g, what="pygsti_label_from_statement")
            if st_ == "err":
                raise Violation("pygsti-label", f"subcircuit {i}: {g}: {lb}\n{ctx}")
            if refexec.is_idle(name):
                if lb is not None:
                    raise Violation("pygsti-label", f"subcircuit {i}: idle gate {g} has label {lb}\n{ctx}")
                continue
            qs = tuple(v[1] for v in vals if v[0] == "q")
            cl = tuple(v[1] for v in vals if v[0] == "num")
            ngates += 1
            if lb is None or lb.name != "GJ" + name or tuple(lb.sslbls or ()) != qs or tuple(lb.args) != cl:
                raise Violation(
                    "pygsti-label",
                    f"subcircuit {i}: {g} labelled {lb} = name {getattr(lb, 'name', None)} qubits {getattr(lb, 'sslbls', None)} args {getattr(lb, 'args', None)}; reference: qubits {qs}, arguments {cl}\n{ctx}",
                )
    # whole-circuit conversion: with the installed pyGSTi it cannot complete (see above), but a
    # valid program with ONE register must not be refused by the visitor itself
    conv = "not-tried"
    if traces:
        try:
            from jaqalpaq.emulator.pygsti.circuit import pygsti_circuit_from_circuit

            pygsti_circuit_from_circuit(e, trace=traces[0], durations={})
            conv = "converted"
        except AssertionError as ex:
            import traceback

            last = traceback.extract_tb(ex.__traceback__)[-1].filename
            if "/pygsti/" in last and "jaqalpaq" not in last:
                conv = "pygsti-version-refuses"
            else:
                raise Violation("pygsti-circuit-rejected", f"AssertionError in {last}\n{ctx}")
        except Exception as ex:  # noqa: BLE001
            raise Violation("pygsti-circuit-rejected", f"{type(ex).__name__}: {ex}\n{ctx}", where=type(ex).__name__)
    feats = ["conversion:" + conv]
    if prog["maps"]:
        feats.append("aliases")
    if n >= 4:
        feats.append("qubits>=4")
    return {"nontrivial": bool(prog["maps"]) and n >= 4 and ngates > 0, "classes": feats + ["subcircuits:%d" % min(nsub, 3)], "key": text, "sample": {"text": text}}


def _pygsti_cases():
    from .. import gen_emul

    def mk(ch):
        c = gen_emul.make_emulable(ch, max_reg=6, with_env=False)
        return {"prog": c["prog"], "gate_seed": c["gate_seed"]}

    return gen.cases(mk)


def parts():
    return [
        Part("chains", gen.cases(_chain_case), chains, quick=1200, thorough=25000, min_nontrivial=0.3),
        Part("two-level", None, two_level, quick=0, thorough=0, exhaustive=_enum, shards=8),
        Part("pygsti-labels", _pygsti_cases(), pygsti_circuits, quick=800, thorough=25000, min_nontrivial=0.1),
    ]
