"""C20 — circuit equality is an equivalence consistent with meaning and text."""

import copy

from hypothesis import strategies as st

from ..common import Violation, Skip, guard, parse, generate, extract, render, same_meaning, show, Ref, Invalid
from ..harness import Part
from .. import gen
from ..model import is_int, walk
from .c02 import _layout_text

PROPERTY = "C20"
RULE = (
    "Pairs (P, P'): (a) P' is P under another layout (separators, comments, whitespace) and with integer-valued "
    "gate arguments respelled (1 <-> 1.0): the circuits must be equal; (b) P' is a SINGLE-SITE mutant of P made at "
    "model level - gate name, one argument value, one more/fewer argument, qubit index, loop count, subcircuit "
    "count, block kind of a block with >= 2 statements, alias bound, alias source, a macro parameter renamed in the header only, two macro parameters exchanged, let value, register size, usepulses module / order of the imports / a repeated import, a declaration (let, alias, macro) added at the end of its table or an unused last one dropped, "
    "which parameter a macro body uses: whenever the reference semantics says meaning or declarations differ the "
    "circuits must compare unequal in both directions (mutants the reference cannot tell apart, or that are "
    "invalid, are discarded and counted). Always: c == c, (a == b) == (b == a), c == parse(generate(c)), and "
    "a == b implies equal declarations and equal meaning (numbers by value). Non-trivial = the mutated site is "
    "nested >= 2 deep or inside a macro. distinct = (text, site)."
)
ASSUMPTIONS = ["parser-produced circuits with anonymous gates; the independent extractor decides 'same meaning' for equal circuits"]


def _sites(p):
    """All single-site mutations of the (already deep-copied) prog p.
    Returns list of (kind, depth, in_macro, fn) where fn(choice:int) mutates p in place and
    returns False if not applicable."""
    out = []
    used = {}
    for s in [x for m in p["macros"] for x in walk([m["body"]])] + list(walk(p["body"])):
        if s[0] == "g":
            used[s[1]] = used.get(s[1], 0) + 1
    mnames = {m["name"] for m in p["macros"]}

    def gate_sites(s, depth, in_macro, params):
        if s[1] not in mnames:

            def rename(ch, s=s):
                s[1] = "ZZ%d" % (ch % 3)
                return True

            out.append(("gate-name", depth, in_macro, rename))
        for j, a in enumerate(s[2]):
            if a[0] == "n":

                def bump(ch, a=a):
                    old = a[1]
                    if old in gen._HASH_TWINS and ch % 2:
                        a[1] = gen._HASH_TWINS[old]
                    elif ch % 5 == 2 and abs(old) < 1e300:
                        # the nearest different number: one float step away (for an int, the
                        # float next to it), or a relative change of 1e-13
                        import math

                        f = float(old)
                        if abs(f) > 2.0**53:
                            return False
                        a[1] = math.nextafter(f, math.inf if ch % 2 else -math.inf) if (ch // 5) % 2 else f * (1 + 1e-13) + (1e-300 if f == 0 else 0.0)
                    else:
                        a[1] = old + 1 + (ch % 3) if is_int(old) else (old * 2 + 1.5 if abs(old) < 1e300 else 0.5)
                    return a[1] != old

                out.append(("arg-value", depth, in_macro, bump))
            elif a[0] == "ix" and is_int(a[2]):

                def reindex(ch, a=a):
                    a[2] = a[2] + 1 if ch % 2 else max(0, a[2] - 1)
                    return True

                out.append(("qubit-index", depth, in_macro, reindex))
            elif a[0] == "id" and a[1] in params and len(params) > 1:

                def swap_param(ch, a=a, params=params):
                    others = [q for q in params if q != a[1]]
                    a[1] = others[ch % len(others)]
                    return True

                out.append(("macro-param-use", depth, in_macro, swap_param))
        if used.get(s[1], 0) == 1 and s[1] not in mnames:

            def add_arg(ch, s=s):
                s[2].append(["n", 7])
                return True

            out.append(("arg-added", depth, in_macro, add_arg))
            if s[2]:

                def drop_arg(ch, s=s):
                    s[2].pop()
                    return True

                out.append(("arg-dropped", depth, in_macro, drop_arg))

    def rec(stmts, depth, in_macro, params, flip_ok):
        for s in stmts:
            if s[0] == "g":
                gate_sites(s, depth, in_macro, params)
            elif s[0] in ("seq", "par"):
                if flip_ok and len(s[1]) >= 2 and all(x[0] == "g" for x in s[1]):

                    def flip(ch, s=s):
                        s[0] = "par" if s[0] == "seq" else "seq"
                        return True

                    out.append(("block-kind", depth, in_macro, flip))
                rec(s[1], depth + 1, in_macro, params, False)
            elif s[0] == "loop":
                if is_int(s[1]):

                    def cnt(ch, s=s):
                        s[1] = s[1] + 1 + ch % 2
                        return True

                    out.append(("loop-count", depth, in_macro, cnt))
                rec([s[2]], depth, in_macro, params, True)
            elif s[0] == "sub":
                if s[1] is None or is_int(s[1]):

                    def scnt(ch, s=s):
                        s[1] = (1 if s[1] is None else s[1]) + 1 + ch % 2
                        return True

                    out.append(("subcircuit-count", depth, in_macro, scnt))
                rec(s[2], depth + 1, in_macro, params, False)

    rec(p["body"], 0, False, (), True)
    for m in p["macros"]:
        rec([m["body"]], 0, True, tuple(m["params"]), True)
    for l in p["lets"]:

        def letv(ch, l=l):
            old = l[1]
            if not is_int(old) and ch % 3 == 1 and abs(old) < 1e300:
                import math

                l[1] = math.nextafter(old, math.inf if ch % 2 else -math.inf)
                return l[1] != old
            l[1] = old + 1 if is_int(old) else (old + 0.5 if abs(old) < 1e15 else old * 2)
            return l[1] != old

        out.append(("let-value", 0, False, letv))
    if p["reg"] and is_int(p["reg"][1]):

        def regsz(ch):
            p["reg"][1] += 1
            return True

        out.append(("register-size", 0, False, regsz))
    for m in p["maps"]:
        sel = m[2]
        if sel is None:
            continue
        for k in range(1, len(sel)):
            if is_int(sel[k]):

                def bound(ch, sel=sel, k=k):
                    sel[k] = sel[k] + 1 if ch % 2 else sel[k] - 1
                    return True

                out.append(("alias-bound", 0, False, bound))
    for mi, m in enumerate(p["maps"]):
        # the SOURCE of an alias: another register-like name declared before it
        earlier = [p["reg"][0]] + [x[0] for x in p["maps"][:mi]] if p["reg"] else []
        others = [n for n in earlier if n != m[1]]
        if others:

            def resrc(ch, m=m, others=others):
                m[1] = others[ch % len(others)]
                return True

            out.append(("alias-source", 0, False, resrc))
    for m in p["macros"]:
        if m["params"]:
            # a parameter renamed in the header ONLY (its uses in the body then mean the header's
            # binding of that name, if there is one), and two parameters exchanged
            def prename(ch, m=m):
                j = ch % len(m["params"])
                cand = [n for n in ([p["reg"][0]] if p["reg"] else []) + [l[0] for l in p["lets"]] + [x[0] for x in p["maps"]] + ["zz_p"] if n not in m["params"]]
                m["params"][j] = cand[(ch // 2) % len(cand)]
                return True

            out.append(("macro-parameter-name", 0, True, prename))
        if len(set(m["params"])) >= 2:

            def pswap(ch, m=m):
                j = ch % (len(m["params"]) - 1)
                m["params"][j], m["params"][j + 1] = m["params"][j + 1], m["params"][j]
                return True

            out.append(("macro-parameter-order", 0, True, pswap))
    for i in range(len(p["usepulses"])):

        def use(ch, i=i):
            m = p["usepulses"][i]
            if ch % 3 == 0:
                m = m + "x"
            elif ch % 3 == 1:
                m = m[1:] if m.startswith(".") and len(m) > 1 else "." + m
            else:
                parts_ = m.split(".")
                parts_[-1] = parts_[-1] + "2"
                m = ".".join(parts_)
            if m in p["usepulses"]:
                return False
            p["usepulses"][i] = m
            return True

        out.append(("usepulses-module", 0, False, use))
    # declarations added at the end of their table, or the last one dropped when nothing uses it:
    # the body means the same, the circuit declares something else
    names_used = set()
    for s_ in [x for m in p["macros"] for x in walk([m["body"]])] + list(walk(p["body"])):
        if s_[0] == "g":
            names_used.add(s_[1])
            for a in s_[2]:
                names_used.update(x for x in a[1:] if isinstance(x, str))
        elif s_[0] in ("loop", "sub") and isinstance(s_[1], str):
            names_used.add(s_[1])
    for m in p["maps"]:
        names_used.add(m[1])
        if m[2]:
            names_used.update(x for x in m[2][1:] if isinstance(x, str))
    if p["reg"] and isinstance(p["reg"][1], str):
        names_used.add(p["reg"][1])
    taken = {l[0] for l in p["lets"]} | {m[0] for m in p["maps"]} | {m["name"] for m in p["macros"]} | ({p["reg"][0]} if p["reg"] else set())

    def add_let(ch):
        if "zz_extra" in taken:
            return False
        p["lets"].append(["zz_extra", 3 + ch % 2])
        return True

    out.append(("declaration-added", 0, False, add_let))
    if p["reg"]:

        def add_map(ch):
            if "zz_alias" in taken:
                return False
            p["maps"].append(["zz_alias", p["reg"][0], None if ch % 2 else ["i", 0]])
            return True

        out.append(("declaration-added", 0, False, add_map))

    def add_macro(ch):
        if "zz_macro" in taken:
            return False
        p["macros"].append({"name": "zz_macro", "params": [], "body": ["seq", []]})
        return True

    out.append(("declaration-added", 0, False, add_macro))
    if p["lets"] and p["lets"][-1][0] not in names_used:

        def drop_let(ch):
            p["lets"].pop()
            return True

        out.append(("declaration-dropped", 0, False, drop_let))
    if p["maps"] and p["maps"][-1][0] not in names_used:

        def drop_map(ch):
            p["maps"].pop()
            return True

        out.append(("declaration-dropped", 0, False, drop_map))
    if p["macros"] and p["macros"][-1]["name"] not in names_used:

        def drop_macro(ch):
            p["macros"].pop()
            return True

        out.append(("declaration-dropped", 0, False, drop_macro))
    if len(p["usepulses"]) >= 2 and len(set(p["usepulses"])) >= 2:

        def reorder(ch):
            # later imports win: the ORDER of the imports is part of what the program says
            u = p["usepulses"]
            i = ch % (len(u) - 1)
            if u[i] == u[i + 1]:
                return False
            u[i], u[i + 1] = u[i + 1], u[i]
            return True

        out.append(("usepulses-order", 0, False, reorder))
    if p["usepulses"]:

        def repeat(ch):
            # ... and so is a repeated import (A, B, A is not A, B), unless it repeats the last one
            u = p["usepulses"]
            if len(set(u)) < 2 or u[ch % len(u)] == u[-1]:
                return False
            u.append(u[ch % len(u)])
            return True

        out.append(("usepulses-repeat", 0, False, repeat))
    return out


def mutant_cases():
    def mk(ch):
        prog, _b = gen.make_prog(ch, gen.Cfg(general_numbers=ch.int(0, 3) == 0, max_depth=4, macro_bias=1, max_macros=3))
        force = None
        if prog["lets"] and ch.int(0, 9) == 0:
            # integers beyond 2^53: neighbours that a comparison through float() cannot tell apart
            unused = [l for l in prog["lets"] if l[0] not in gen.int_position_lets(prog)]
            if unused:
                ch.pick(unused)[1] = ch.pick([2**53, 2**60 + 6, 10**20, -(2**53) - 2, 2**64])
                force = "let-value"
        return {"prog": prog, "site": ch.int(0, 10**6), "choice": ch.int(0, 5), "force": force}

    return gen.cases(mk)


def _decl_equal(d1, d2):
    return repr(d1) == repr(d2) or all(_veq(d1[k], d2[k]) for k in ("lets", "reg", "maps", "macros", "usepulses"))


def _veq(a, b):
    return a == b


def _basic_laws(c, text):
    if not (c == c):
        raise Violation("not-reflexive", text)
    st_, t = guard(generate, c, what="generate")
    if st_ == "err":
        raise Skip()
    st_, c2 = guard(parse, t, what="reparse")
    if st_ == "err":
        # "a circuit equals the re-parse of its own generated text": a text that does not parse
        # back gives nothing to be equal to (C01 judges the round trip in full)
        raise Violation("not-equal-to-own-reparse", f"the generated text is rejected: {c2}\n--- program:\n{text}\n--- generated:\n{t}", where="rejected")
    if not (c == c2) or not (c2 == c):
        raise Violation("not-equal-to-own-reparse", f"--- program:\n{text}\n--- generated:\n{t}")


def mutants(case):
    prog = case["prog"]
    text = render.to_text(prog)
    try:
        ref = Ref(prog)
        m1 = ref.validate()
        d1 = ref.declarations()
    except Invalid:
        raise Skip()
    st_, a = guard(parse, text, what="parse")
    if st_ == "err":
        raise Skip()
    _basic_laws(a, text)
    p2 = copy.deepcopy(prog)
    sites = _sites(p2)
    if not sites:
        raise Skip()
    if case.get("force"):
        forced = [x for x in sites if x[0] == case["force"]]
        sites = forced or sites
    kind, depth, in_macro, fn = sites[case["site"] % len(sites)]
    if not fn(case["choice"]):
        raise Skip()
    text2 = render.to_text(p2)
    classes = ["site:" + kind]
    try:
        ref2 = Ref(p2)
        m2 = ref2.validate()
        d2 = ref2.declarations()
    except Invalid:
        return {"nontrivial": False, "classes": classes + ["mutant-invalid"], "key": text + text2}
    st_, b = guard(parse, text2, what="parse-mutant")
    if st_ == "err":
        return {"nontrivial": False, "classes": classes + ["mutant-rejected"], "key": text + text2}
    ab, ba = (a == b), (b == a)
    if ab != ba:
        raise Violation("not-symmetric", f"a==b is {ab}, b==a is {ba}\n--- P:\n{text}\n--- P':\n{text2}", where=kind)
    differs = (not same_meaning(m1, m2)) or not _decl_equal(d1, d2)
    if not differs:
        # the reference cannot tell them apart; if the code says equal, check the converse law
        classes.append("mutant-equivalent")
    if ab:
        try:
            ea, eb = extract.Extractor(a), extract.Extractor(b)
            same = same_meaning(ea.meaning(), eb.meaning()) and repr(ea.declarations()) == repr(eb.declarations()) or (
                same_meaning(ea.meaning(), eb.meaning()) and _decl_equal(ea.declarations(), eb.declarations())
            )
        except extract.ExtractError:
            same = True
        if differs or not same:
            raise Violation(
                "unequal-programs-compare-equal",
                f"site {kind}: circuits compare equal but meaning/declarations differ\n--- P:\n{text}\n--- P':\n{text2}",
                where=kind,
            )
    nt = differs and (depth >= 2 or in_macro)
    return {
        "nontrivial": nt,
        "classes": classes + (["in-macro"] if in_macro else []) + ["depth:%d" % min(depth, 4)],
        "key": text + "|" + text2,
        "sample": {"P": text, "P_mutant": text2, "site": kind},
    }


def equal_cases():
    def mk(ch):
        prog, _b = gen.make_prog(ch, gen.Cfg(general_numbers=False, max_depth=4, macro_bias=1))
        return {"prog": prog, "layout": ch.ints(32, 0, 255), "respell": ch.int(0, 7)}

    return gen.cases(mk)


def equal_pairs(case):
    prog = case["prog"]
    text = render.to_text(prog)
    try:
        Ref(prog).validate()
    except Invalid:
        raise Skip()
    st_, a = guard(parse, text, what="parse")
    if st_ == "err":
        raise Skip()
    p2 = copy.deepcopy(prog)
    n = 0
    for s in [x for m in p2["macros"] for x in walk([m["body"]])] + list(walk(p2["body"])):
        if s[0] == "g":
            for arg in s[2]:
                if arg[0] == "n" and abs(arg[1]) < 2**53:
                    n += 1
                    if (n + case["respell"]) % 2 == 0:
                        if is_int(arg[1]):
                            arg[1] = float(arg[1])
                        elif arg[1] == int(arg[1]):
                            arg[1] = int(arg[1])
    text2, stats = _layout_text(p2, case["layout"])
    st_, b = guard(parse, text2, what="parse-layout")
    if st_ == "err":
        raise Skip()  # C02's business
    if not (a == b) or not (b == a):
        raise Violation("same-program-compares-unequal", f"--- P:\n{text}\n--- P':\n{text2}")
    _basic_laws(b, text2)
    try:
        if not same_meaning(extract.meaning(a), extract.meaning(b)):
            raise Violation("equal-circuits-different-meaning", f"--- P:\n{text}\n--- P':\n{text2}")
    except extract.ExtractError:
        pass
    return {"nontrivial": n > 0 or stats["block"] > 0, "classes": ["respelled-args:%d" % min(n, 3)], "key": text2, "sample": {"P": text, "P_relayout": text2}}


# ------------------------------------------------------------------------------ header circuits
# parse_jaqal_string_header accepts what the full parser refuses - more than one register - so
# its circuits can hold a fundamental register and an alias OF THE SAME NAME in two programs.

HEADER_PAIRS = [
    ("register q[2]\nregister z[2]\n", "register z[2]\nmap q z\n"),
    ("register q[2]\nregister z[2]\n", "register z[2]\nregister q[2]\n"),
    ("register q[2]\n", "register z[2]\nmap q z[0:2]\n"),
    ("let n 2\nregister q[n]\n", "let n 2\nregister z[n]\nmap q z\n"),
    ("register q[1]\nmap s q[0]\n", "register s[1]\nmap q s\n"),
    ("let a 1\nregister q[2]\n", "let a 1.0\nregister q[2]\n"),
]


def header_pairs(case):
    from jaqalpaq.parser.parser import parse_jaqal_string_header

    ta, tb = HEADER_PAIRS[case["i"]]
    if case["swap"]:
        ta, tb = tb, ta
    st_, a = guard(parse_jaqal_string_header, ta, what="parse_jaqal_string_header")
    st2, b = guard(parse_jaqal_string_header, tb, what="parse_jaqal_string_header")
    if st_ == "err" or st2 == "err":
        raise Skip()
    ab, ba = a == b, b == a
    if ab != ba:
        raise Violation("not-symmetric", f"a == b is {ab}, b == a is {ba}\n--- a:\n{ta}\n--- b:\n{tb}", where="header-circuits")
    if not (a == a) or not (b == b):
        raise Violation("not-reflexive", f"{ta}\n{tb}", where="header-circuits")
    # (the ORDER of declarations is not part of equality: the tables are compared as mappings)
    da = {n_: (r_.fundamental if hasattr(r_, "fundamental") else None) for n_, r_ in a.registers.items()}
    db = {n_: (r_.fundamental if hasattr(r_, "fundamental") else None) for n_, r_ in b.registers.items()}
    if ab and da != db:
        raise Violation("equal-circuits-differ", f"equal circuits, but one declares a register where the other declares an alias: {da} vs {db}\n--- a:\n{ta}\n--- b:\n{tb}", where="header-circuits")
    return {"nontrivial": True, "classes": ["equal:%s" % ab], "key": repr(case), "sample": {"a": ta, "b": tb}}


def _header_enum(tier):
    for i in range(len(HEADER_PAIRS)):
        for swap in (False, True):
            yield {"i": i, "swap": swap}


def parts():
    return [
        Part("single-site-mutants", mutant_cases(), mutants, quick=5000, thorough=120000, min_nontrivial=0.05),
        Part("equal-pairs", equal_cases(), equal_pairs, quick=1500, thorough=30000, min_nontrivial=0.2),
        Part("header-circuits", None, header_pairs, quick=0, thorough=0, exhaustive=_header_enum, shards=1),
    ]
