"""C04 — macro expansion preserves the meaning of the program."""

from hypothesis import strategies as st

from ..common import Violation, Skip, guard, parse, extract, render, same_meaning, show, Ref, Invalid, prog_features
from ..harness import Part
from .. import gen, gates
from ..model import walk

PROPERTY = "C04"
RULE = (
    "Programs with 1-5 macros, any call graph over earlier macros, parameters used as qubit / number / array / "
    "index / loop count / passed on, calls from top level, sequential, parallel, loop and subcircuit context, "
    "subcircuit blocks inside macro bodies, pulse imports; gates anonymous or from an injected native set. "
    "Oracle: e = expand_macros(c) (also preserve_definitions=True) contains no call to a macro anywhere; the "
    "independently extracted meaning of e equals the reference meaning under call-by-substitution (subcircuit "
    "nodes, counts, loop counts and block kinds included) and equals the extracted meaning of c with numbers "
    "compared by type and repr; the same reading of e in a SECOND environment (every let given another value the "
    "reference keeps valid) equals the reference meaning there, so a let handed to a macro is still a reference; constants, registers, native gates, pulse imports carried over (==); macros empty "
    "resp. unchanged. Arity part: a prebuilt call with k+-1 arguments to a k-parameter macro is placed at a drawn "
    "position (top level / in a block / in a loop) and expand_macros must raise JaqalError. Non-trivial = >= 2 macro "
    "levels, or a call inside loop/parallel/subcircuit, or a parameter used as index/array/count. distinct = text."
    " unlinked-calls: a macro (1-3 parameters named from p0 p1 p2 ctl tgt a self, body using them in a drawn order) is called inside a BlockBuilder loop / nested loop / macro body that CircuitBuilder evaluates on its own, so the call is keyed by placeholder names; expand_macros of the built circuit must print like expand_macros of the circuit's own text and contain the gate with the i-th argument at the i-th parameter's places."
)
ASSUMPTIONS = ["macros call only earlier-defined macros; programs are valid by construction (reference semantics agrees)"]

_NATIVE_NAMES = ["U1", "R1", "R2", "N1", "U2", "P2", "M2", "U3"]
_NAT = None


def natives():
    global _NAT
    if _NAT is None:
        _NAT = gates.make_gates(7, idle=True, names=_NATIVE_NAMES)
    return _NAT


def _macro_calls_left(circ, macro_names):
    from jaqalpaq.core.macro import Macro
    from jaqalpaq.core.gate import GateStatement

    return extract.find_objects(
        circ,
        lambda x: isinstance(x, GateStatement) and (isinstance(x.gate_def, Macro) or x.name in macro_names),
        include_macros=False,
        include_header=False,
    )


def _call_contexts(prog):
    mnames = {m["name"] for m in prog["macros"]}
    ctx = set()

    def rec(stmts, inside):
        for s in stmts:
            if s[0] == "g":
                if s[1] in mnames:
                    ctx.update(inside or {"top"})
            elif s[0] in ("seq", "par"):
                rec(s[1], inside | {s[0]})
            elif s[0] == "loop":
                rec([s[2]], inside | {"loop"})
            elif s[0] == "sub":
                rec(s[2], inside | {"sub"})

    rec(prog["body"], frozenset())
    for m in prog["macros"]:
        rec([m["body"]], frozenset({"macro"}))
    return ctx


def check(case, mode):
    from jaqalpaq.core.algorithm import expand_macros

    prog = case["prog"]
    text = render.to_text(prog)
    try:
        m_ref = Ref(prog).meaning()
    except Invalid:
        raise Skip()
    kw = {"inject_pulses": natives()} if mode == "native" else {}
    st_, c = guard(parse, text, what="parse", **kw)
    if st_ == "err":
        raise Skip()
    try:
        m_c = extract.meaning(c)
    except extract.ExtractError:
        raise Skip()
    if not same_meaning(m_ref, m_c):
        raise Skip()  # parser/scoping problem: C07's business
    # A let passed to (or used in) a macro is still that let after expansion: the expansion is read
    # a second time in an environment that gives every let another value (kept valid by the
    # reference), as a later fill_in_let with overrides would
    env2, m_ref2 = _second_environment(prog, c)
    for preserve in (False, True):
        tag = "preserve" if preserve else "plain"
        st_, e = guard(expand_macros, c, preserve_definitions=preserve, what="expand_macros")
        if st_ == "err":
            raise Violation("rejected-valid-program", f"{e}\n--- program:\n{text}")
        left = _macro_calls_left(e, set(c.macros))
        if left:
            raise Violation("macro-call-left", f"{left[:3]}\n--- program:\n{text}")
        try:
            m_e = extract.Extractor(e).meaning() if not preserve else extract.Extractor(e).meaning()
        except extract.ExtractError as ex:
            raise Violation("expanded-unresolvable", f"{ex}\n--- program:\n{text}")
        if not same_meaning(m_ref, m_e):
            kind = "meaning"
            if "sub" in show(m_ref) and "sub" not in show(m_e):
                kind = "subcircuit-annotation-lost"
            raise Violation(kind, f"[{tag}] expected {show(m_ref)}\ngot      {show(m_e)}\n--- program:\n{text}")
        if env2:
            try:
                m_e2 = extract.Extractor(e, env2).meaning()
            except extract.ExtractError as ex:
                raise Violation("expanded-unresolvable", f"under let values {env2}: {ex}\n--- program:\n{text}")
            if not same_meaning(m_ref2, m_e2):
                raise Violation("let-reference-frozen", f"[{tag}] with the lets valued {env2}: expected {show(m_ref2)}\ngot      {show(m_e2)}\n--- program:\n{text}")
        if not same_meaning(m_c, m_e, strict=True):
            raise Violation("number-altered", f"[{tag}] {show(m_c)}\n!= {show(m_e)}\n--- program:\n{text}")
        if not (e.constants == c.constants):
            raise Violation("header-constants", f"[{tag}] {e.constants} != {c.constants}")
        if not (e.registers == c.registers) or list(e.registers) != list(c.registers):
            raise Violation("header-registers", f"[{tag}] {e.registers} != {c.registers}")
        if not (e.native_gates == c.native_gates):
            raise Violation("header-native-gates", f"[{tag}]")
        if not (e.usepulses == c.usepulses):
            raise Violation("header-usepulses", f"[{tag}] {e.usepulses} != {c.usepulses}\n--- program:\n{text}")
        if preserve:
            if not (e.macros == c.macros) or list(e.macros) != list(c.macros):
                raise Violation("macros-not-preserved", f"{e.macros} != {c.macros}")
        elif len(e.macros) != 0:
            raise Violation("macros-not-removed", f"{list(e.macros)}")
    feats = prog_features(prog)
    ctx = _call_contexts(prog)
    levels = "macro-calls-macro" in feats
    nt = levels or bool(ctx & {"loop", "par", "sub"}) or bool(feats & {"param-as-index", "param-as-array", "param-as-count"})
    classes = sorted(f for f in feats if f.startswith(("param-", "macro", "subcircuit", "usepulses"))) + ["call-in:" + x for x in sorted(ctx)] + (["second-environment"] if env2 else [])
    return {"nontrivial": nt, "classes": classes, "key": mode + text, "sample": {"mode": mode, "text": text}}


def _second_environment(prog, c):
    from ..model import is_int

    env = {}
    for n, v in prog["lets"]:
        for cand in ([v + 1, v - 1, v + 2, 0] if is_int(v) else [v + 0.5]):
            if cand == v:
                continue
            trial = dict(env)
            trial[n] = cand
            try:
                Ref(prog, trial).validate()
            except Invalid:
                continue
            if gen.frozen_default_risk(prog, trial):
                continue
            env = trial
            break
    if not env:
        return {}, None
    try:
        m_ref2 = Ref(prog, env).meaning()
        if not same_meaning(m_ref2, extract.Extractor(c, env).meaning()):
            return {}, None  # the unexpanded circuit itself is read differently: not this pass
    except (Invalid, extract.ExtractError):
        return {}, None
    return env, m_ref2


def _arity_case(ch):
    prog, _b = gen.make_prog(ch, gen.Cfg(max_macros=3, general_numbers=False, usepulses=False, max_depth=3, macro_bias=1))
    return {
        "prog": prog,
        "which": ch.int(0, 10),
        "delta": ch.pick([-1, 1, 2]),
        "pos": ch.int(0, 20),
        "wrap": ch.pick(["none", "seq", "par", "loop", "loop0", "sub"]),
    }


def arity_cases():
    return gen.cases(_arity_case)


def arity(case):
    from jaqalpaq.core.algorithm import expand_macros
    from jaqalpaq.core.circuitbuilder import build
    from jaqalpaq.core.circuit import Circuit
    from jaqalpaq.core.block import BlockStatement, LoopStatement
    from jaqalpaq.error import JaqalError

    prog = case["prog"]
    if not prog["macros"]:
        raise Skip()
    text = render.to_text(prog)
    st_, c = guard(parse, text, what="parse")
    if st_ == "err":
        raise Skip()
    m = prog["macros"][case["which"] % len(prog["macros"])]
    k = len(m["params"]) + case["delta"]
    if k < 0:
        k = len(m["params"]) + 1
    gate = build(("gate", m["name"]) + tuple(range(k)))
    stmt = gate
    if case["wrap"] == "seq":
        stmt = BlockStatement(statements=[gate])
    elif case["wrap"] == "par":
        stmt = BlockStatement(parallel=True, statements=[gate])
    elif case["wrap"] == "loop":
        stmt = LoopStatement(2, BlockStatement(statements=[gate]))
    elif case["wrap"] == "loop0":
        stmt = LoopStatement(0, BlockStatement(statements=[gate]))
    elif case["wrap"] == "sub":
        stmt = BlockStatement(subcircuit=True, statements=[gate])
    c2 = Circuit(native_gates=c.native_gates)
    c2.constants.update(c.constants)
    c2.registers.update(c.registers)
    c2.macros.update(c.macros)
    body = list(c.body.statements)
    pos = case["pos"] % (len(body) + 1)
    body.insert(pos, stmt)
    c2.body.statements.extend(body)
    st_, r = guard(expand_macros, c2, what="expand_macros")
    if st_ == "ok":
        raise Violation("wrong-arity-accepted", f"macro {m['name']} has {len(m['params'])} parameters, call with {k} arguments (wrap={case['wrap']}, pos={pos}) was expanded\n--- program:\n{text}")
    return {"nontrivial": case["wrap"] != "none" or pos > 0, "classes": ["wrap:" + case["wrap"], "delta:%+d" % case["delta"]], "key": text + repr((k, pos, case["wrap"]))}


_PNAMES = ["p0", "p1", "p2", "ctl", "tgt", "a", "self"]


def _unlinked_case(ch):
    k = ch.int(1, 3)
    return {"params": ch.sample(_PNAMES, k), "use": [ch.int(0, k - 1) for _ in range(ch.int(1, 4))], "args": ch.sample([0, 1, 2, 3], k), "place": ch.pick(["loop", "loop", "nested", "macro-body", "top"]), "count": ch.int(1, 3)}


def unlinked_calls(case):
    """A macro call inside a block that the builder evaluates ON ITS OWN (the default of
    BlockBuilder.loop / CircuitBuilder.macro with a builder body) is built before the circuit
    knows its macros, so the call statement is keyed by an anonymous definition's parameter
    names (p0, p1, ...).  Expansion must still put the i-th argument where the body names the
    i-th parameter, whatever the parameters are called.  Oracle: the expansion of the same
    program read from its own generated text (that route is judged against the reference by
    the parts above) and a directly computed gate list."""
    from jaqalpaq.core.circuitbuilder import CircuitBuilder, SequentialBlockBuilder
    from jaqalpaq.core.algorithm import expand_macros
    from ..common import generate

    params, use, args, place = case["params"], case["use"], case["args"], case["place"]
    if len(set(params)) != len(params) or len(args) != len(params) or not all(0 <= u < len(params) for u in use) or not use:
        raise Skip()
    cb = CircuitBuilder()
    q = cb.register("q", 4)
    mb = SequentialBlockBuilder()
    mb.gate("G", *[params[u] for u in use])
    cb.macro("m", list(params), mb)
    call_args = [q[a] for a in args]
    if place == "top":
        cb.gate("m", *call_args)
    elif place == "loop":
        lb = SequentialBlockBuilder()
        lb.gate("m", *call_args)
        cb.loop(case["count"], lb)
    elif place == "nested":
        inner = SequentialBlockBuilder()
        inner.gate("m", *call_args)
        outer = SequentialBlockBuilder()
        outer.gate("H", q[0])
        outer.loop(case["count"], inner)
        cb.loop(2, outer)
    else:
        wb = SequentialBlockBuilder()
        wb.gate("m", *call_args)
        cb.macro("w", [], wb)
        cb.gate("w")
    st_, c = guard(cb.build, what="CircuitBuilder.build")
    if st_ == "err":
        raise Violation("valid-program-rejected", f"build: {c}\n{case}")
    text = generate(c)
    st_, e1 = guard(expand_macros, c, what="expand_macros")
    if st_ == "err":
        raise Violation("valid-program-rejected", f"expand_macros: {e1}\n--- program:\n{text}")
    e2 = expand_macros(parse(text))
    t1, t2 = generate(e1), generate(e2)
    want = "G " + " ".join(f"q[{args[u]}]" for u in use)
    if t1 != t2 or want not in t1 or "m " in t1.split("{", 1)[-1] and False:
        raise Violation("argument-binding", f"built through the builder and expanded:\n{t1}\nthe same program read from its text and expanded:\n{t2}\nexpected gate: {want}\n--- program:\n{text}", where=place)
    return {"nontrivial": place != "top" and len(params) > 1, "classes": ["place:" + place, "params:%d" % len(params), "names-p0p1:%s" % any(p in ("p0", "p1", "p2") for p in params)], "key": repr(case), "sample": {"program": text}}


def parts():
    anon = gen.progs(gen.Cfg(max_macros=5, general_numbers=False, max_depth=4, macro_bias=1))
    nat = gen.progs(gen.Cfg(natives=gates.kinds_table(idle=True, names=_NATIVE_NAMES), reg_args=False, max_macros=4, general_numbers=False, max_depth=4, macro_bias=1))
    return [
        Part("expand-anon", anon, lambda c: check(c, "anon"), quick=3000, thorough=70000, min_nontrivial=0.2),
        Part("expand-native", nat, lambda c: check(c, "native"), quick=1500, thorough=40000, min_nontrivial=0.2),
        Part("wrong-arity", arity_cases(), arity, quick=1000, thorough=15000),
        Part("unlinked-calls", gen.cases(_unlinked_case), unlinked_calls, quick=600, thorough=8000, min_nontrivial=0.2),
    ]
