"""C08 — execution terminates and yields one readout per subcircuit visit, in order."""

import numpy as np

from ..common import Violation, Skip, guard, parse, render, Ref, Invalid
from ..harness import Part, step_budget
from .. import gen, gates, gen_emul, refexec, refsim
from .c03 import ref_states

def _msgkey(e):
    """Short stable key of an error message (digits and quoted names removed)."""
    import re

    return re.sub(r"[0-9]+|'[^']*'", "#", str(e))[:40]


PROPERTY = "C08"
RULE = (
    "Two generators: (a) unfiltered prepare/measure/subcircuit/X placements over loops with counts 0-3 (literal), "
    "blocks and macros, kept when the reference acceptance rule (C12) accepts them; (b) executable programs with "
    "random unitaries, loop counts literal / let / overridden let, sections inside nested loops and macros.  The "
    "reference unrolls the macro-expanded program and lists the flat-order index of every subcircuit visit (V).  "
    "Oracle: run_jaqal_circuit finishes within a deterministic step budget; len(readouts) == len(V); "
    "readouts[k].index == k; readouts[k].subcircuit.index == V[k]; the sampled outcome has non-zero probability "
    "in that subcircuit's distribution (and equals the unique outcome when the reference state is a basis state); "
    "subcircuits[i].readouts is exactly the subsequence with V[k] == i; relative_frequency_by_int are its counts; "
    "parse_jaqal_output_list(circuit, outs) for a drawn output list (ints and bit strings) of length len(V) gives "
    "the same sequence and attribution.  Runs in which a measure executes while nothing is prepared (its prepare "
    "sits in a zero-count loop) are outside the stated property and counted.  Non-trivial = a loop with count 0 or "
    ">= 2 around a subcircuit, or >= 2 loop levels around one. distinct = (text, overrides)."
)
ASSUMPTIONS = ["numpy.random.seed pins the emulator's sampler; the check never depends on which outcome is sampled, only on it being possible"]


def _loop_profile(tree):
    """(max loop nesting around a bracket, set of counts around brackets)."""
    best = [0]
    counts = set()

    def rec(node, stack):
        tag = node[0]
        if tag == "g":
            if node[1] in ("prepare_all", "measure_all"):
                best[0] = max(best[0], len(stack))
                counts.update(stack)
        elif tag == "loop":
            rec(node[2], stack + [node[1]])
        elif tag == "sub":
            best[0] = max(best[0], len(stack))
            counts.update(stack)
        else:
            for k in node[1]:
                rec(k, stack)

    rec(tree, [])
    return best[0], counts


def check(case):
    from jaqalpaq.core.algorithm import fill_in_let
    from jaqalpaq.core.result import parse_jaqal_output_list
    from jaqalpaq.emulator import run_jaqal_circuit

    prog, env, gate_seed = case["prog"], case.get("env") or {}, case["gate_seed"]
    text = render.to_text(prog)
    try:
        r = ref_states(prog, env, gate_seed)
    except Invalid:
        raise Skip()
    if r is None:
        raise Skip()
    n, nsub, visits, tree = r
    if any(isinstance(s, str) for _i, s in visits):
        raise Skip()
    size = refexec.unrolled_size(tree)
    if size > 3000 or len(visits) > 400:
        raise Skip()
    V = [i for i, _s in visits]
    natives = gates.make_gates(gate_seed)
    st_, c = guard(parse, text, inject_pulses=natives, what="parse")
    if st_ == "err":
        raise Violation("rejected-valid-program", f"parse: {c}\n--- program:\n{text}", where="parse:" + _msgkey(c))
    if env:
        st_, c = guard(fill_in_let, c, dict(env), what="fill_in_let")
        if st_ == "err":
            raise Violation("rejected-valid-program", f"fill_in_let: {c}\n--- overrides {env}\n--- program:\n{text}", where="fill_in_let:" + _msgkey(c))
    ctx = f"--- overrides {env}\n--- program:\n{text}"
    np.random.seed(case.get("np_seed", 1))
    with step_budget(2000 * (size + len(V) + 50) + 10**6):
        if len(text) % 2:
            # one backend object for all the cases of the process: nothing may pile up in it
            from .c03 import shared_backend

            st_, res = guard(run_jaqal_circuit, c, backend=shared_backend(), what="run_jaqal_circuit(backend=shared)")
        else:
            st_, res = guard(run_jaqal_circuit, c, what="run_jaqal_circuit")
    if st_ == "err":
        raise Violation("rejected-valid-program", f"run: {res}\n{ctx}", where="run:" + _msgkey(res))
    _check_result(res, V, nsub, n, visits, ctx, "emulator")
    # hardware output list
    ch = gen.Chooser(case.get("outs_seed", 0))
    outs_int = [ch.int(0, 2**n - 1) for _ in V]
    outs = [(format(v, "b").zfill(n)[::-1] if ch.bool() else v) for v in outs_int]
    with step_budget(2000 * (size + len(V) + 50) + 10**6):
        st_, res2 = guard(parse_jaqal_output_list, c, list(outs), what="parse_jaqal_output_list")
    if st_ == "err":
        raise Violation("output-list-rejected", f"{res2}\n{ctx}")
    _check_result(res2, V, nsub, n, None, ctx, "output-list", outs_int)
    depth, counts = _loop_profile(tree)
    nt = depth >= 2 or 0 in counts or any(k >= 2 for k in counts)
    classes = ["loop-levels:%d" % min(depth, 4)] + ["count:%s" % (k if k < 3 else "3+") for k in sorted(counts)]
    if env:
        classes.append("with-override")
    classes.append("visits:%s" % ("0" if not V else "1" if len(V) == 1 else "2-9" if len(V) < 10 else "10+"))
    return {"nontrivial": nt, "classes": classes, "key": text + repr(sorted(env.items())), "sample": {"text": text, "overrides": env, "visits": V}}


def _check_result(res, V, nsub, n, visits, ctx, who, outs=None):
    if len(res.subcircuits) != nsub:
        raise Violation("subcircuit-count", f"[{who}] {len(res.subcircuits)} != reference {nsub}\n{ctx}", where=who)
    ro = list(res.readouts)
    got = [r.subcircuit.index for r in ro]
    if len(ro) != len(V):
        raise Violation("readout-count", f"[{who}] {len(ro)} readouts for {len(V)} visits; attributed {got}, reference {V}\n{ctx}", where=who)
    if got != V:
        raise Violation("readout-attribution", f"[{who}] attributed {got}, reference visit sequence {V}\n{ctx}", where=who)
    for k, r in enumerate(ro):
        if r.index != k:
            raise Violation("readout-index", f"[{who}] readout {k} has index {r.index}\n{ctx}", where=who)
        if outs is not None:
            if r.as_int != outs[k]:
                raise Violation("readout-value", f"[{who}] readout {k} is {r.as_int}, supplied {outs[k]}\n{ctx}", where=who)
        else:
            sc = res.subcircuits[V[k]]
            p = np.asarray(sc.simulated_probability_by_int)
            if not (0 <= r.as_int < 2**n) or not p[r.as_int] > 0:
                raise Violation("impossible-outcome", f"[{who}] readout {k} = {r.as_int} has probability 0 in subcircuit {V[k]}\n{ctx}", where=who)
            state = visits[k][1]
            pr = np.abs(refsim.flat(state)) ** 2
            if pr.max() > 1 - 1e-9 and r.as_int != int(np.argmax(pr)):
                raise Violation("wrong-outcome", f"[{who}] readout {k} = {r.as_int}, the only possible outcome is {int(np.argmax(pr))}\n{ctx}", where=who)
    for i, sc in enumerate(res.subcircuits):
        if sc.index != i:
            raise Violation("subcircuit-index", f"[{who}] subcircuits[{i}].index == {sc.index}\n{ctx}", where=who)
        mine = [r for r in ro if r.subcircuit is sc]
        theirs = list(sc.readouts)
        if len(mine) != len(theirs) or any(a is not b for a, b in zip(mine, theirs)):
            raise Violation("per-subcircuit-readouts", f"[{who}] subcircuit {i}: {theirs} != {mine}\n{ctx}", where=who)
        rf = np.asarray(sc.relative_frequency_by_int)
        want = np.zeros(2**n)
        for r in mine:
            want[r.as_int] += 1
        if rf.shape != want.shape or not np.array_equal(rf, want):
            raise Violation("relative-frequencies", f"[{who}] subcircuit {i}: {rf} != counts {want}\n{ctx}", where=who)


def pm_cases():
    def mk(ch):
        c = gen_emul.make_pm(ch)
        c["outs_seed"] = ch.int(0, 10**9)
        c["np_seed"] = ch.int(0, 10**6)
        return c

    return gen.cases(mk)


def emul_cases():
    def mk(ch):
        c = gen_emul.make_emulable(ch, max_reg=4)
        c["outs_seed"] = ch.int(0, 10**9)
        c["np_seed"] = ch.int(0, 10**6)
        c.pop("stats", None)
        return c

    return gen.cases(mk)


def parts():
    return [
        Part("walker-brackets", pm_cases(), check, quick=5000, thorough=100000, min_nontrivial=0.05),
        Part("walker-programs", emul_cases(), check, quick=1500, thorough=30000, min_nontrivial=0.2),
    ]
