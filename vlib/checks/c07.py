"""C07 — identifiers resolve lexically; a statement's meaning ignores unrelated statements."""

from hypothesis import strategies as st

from ..common import Violation, Skip, guard, parse, extract, render, same_meaning, show, Ref, Invalid
from ..harness import Part
from .. import gen
from ..model import empty_prog, is_int, walk

PROPERTY = "C07"
RULE = (
    "A header (lets, register, alias chain) and a pool of 2-4 gate statements are drawn; the SAME statement text "
    "is then placed verbatim in the main body and in 1-3 macros whose parameters capture (with probability 1/2 "
    "each) the names the statements use - as direct argument, as array name (r[0]) and as index (q[i]) - in "
    "permuted definition order, mixed with other statements and with calls that bind the parameters to values "
    "different from the header's. Oracle: the independent meaning extraction of the parsed circuit (main body, and "
    "every macro body under distinguishable probe arguments) equals the reference meaning of the model; the same "
    "after expand_macros, after fill_in_let and after fill_in_map (when it answers); and deleting all other scopes' copies never changes the meaning of "
    "the remaining scope (metamorphic). Non-trivial = at least one pair of textually identical gate statements in "
    "different scopes whose reference meanings differ. distinct = distinct program text."
)
ASSUMPTIONS = ["anonymous gates (no native set); arity per gate name fixed; macros only call earlier macros"]


def _names_in(stmt):
    """(direct, arrays{name: max literal idx or None}, index names{name: [arrays]})"""
    direct, arrays, indexes = set(), {}, {}
    for a in stmt[2]:
        if a[0] == "id":
            direct.add(a[1])
        elif a[0] == "ix":
            arrays.setdefault(a[1], [])
            if isinstance(a[2], str):
                indexes.setdefault(a[2], []).append(a[1])
    return direct, arrays, indexes


def _case(ch):
    b = gen.Builder(ch, gen.Cfg(max_lets=3, max_maps=3, usepulses=False, general_numbers=False, max_depth=3, max_block=3, shadow=0.0))
    prog = empty_prog()
    b.header(prog)
    sc = b.sc
    # pool of statements in header scope
    pool = []
    for _ in range(ch.int(2, 4)):
        for _try in range(4):
            s = b.gate_stmt(False)
            if s is not None and _all_names(s):
                pool.append(s)
                break
    for mn in ch.sample(gen.MACRO_POOL, ch.int(1, 3)):
        mine = [s for s in pool if ch.int(0, 5) > 0]
        cand = {}
        for s in mine:
            direct, arrays, indexes = _names_in(s)
            for n in direct:
                if n in sc.lets:
                    cand.setdefault(n, ("num", None))
                elif n in sc.singles:
                    cand.setdefault(n, ("qubit", None))
                elif n in sc.regs:
                    cand[n] = ("reg", len(sc.regs[n]))
            for n in arrays:
                if n in sc.regs:
                    cand[n] = ("reg", len(sc.regs[n]))
            for n, arrs in indexes.items():
                if n in sc.lets:
                    bound = min(len(sc.regs[a]) for a in arrs if a in sc.regs)
                    old = cand.get(n)
                    if old and old[0] == "idx":
                        bound = min(bound, old[1])
                    cand[n] = ("idx", bound)
        params, roles = [], []
        forced = ch.int(0, max(0, len(cand) - 1))
        for j, n in enumerate(sorted(cand)):
            if j == forced or ch.bool():
                params.append(n)
                roles.append(cand[n])
        if ch.int(0, 2) == 0:
            extra = ch.pick(gen.PARAM_POOL)
            if extra not in params:
                params.append(extra)
                roles.append((ch.pick(["qubit", "num"]), None))
        saved = sc.params
        sc.params = dict(zip(params, roles))
        others = b.block_items("seq", 2, True, False, 2)
        stmts = list(mine) + others
        stmts = [stmts[i] for i in ch.perm(len(stmts))]
        sc.params = saved
        kind = ch.pick(["seq", "seq", "par"])
        if kind == "par":
            stmts = [s for s in stmts if s[0] in ("g", "seq")]
        prog["macros"].append({"name": mn, "params": params, "body": [kind, stmts]})
        sc.macros.append((mn, roles, False))
    main = [s for s in pool if ch.int(0, 5) > 0]
    main += b.block_items("top", 1, False, False, 3)
    for _ in range(ch.int(0, 3)):
        if sc.macros:
            name, roles, _hs = ch.pick(sc.macros)
            args = [b.macro_arg(r, c) for r, c in roles]
            if all(a is not None for a in args):
                main.append(["g", name, args])
    prog["body"] = [main[i] for i in ch.perm(len(main))]
    return {"prog": prog, "pool": pool}


def cases():
    return gen.cases(_case)


def _probe_args(roles_by_param, params, ref):
    """Distinguishable probe values for macro parameters, valid for their use."""
    out = []
    for i, p in enumerate(params):
        role, c = roles_by_param.get(p, ("num", None))
        if role == "qubit":
            out.append(("q", 100 + i))
        elif role == "reg":
            out.append(("reg", tuple(range(200 + 10 * i, 200 + 10 * i + (c or 1)))))
        elif role == "idx":
            out.append(("num", 0))
        elif role == "count":
            out.append(("num", 2))
        else:
            out.append(("num", 1000 + i))
    return out


def _infer_roles(prog, m):
    """Infer how a macro uses its parameters from the model (array / index / count / plain)."""
    roles = {}
    mnames = {x["name"]: x for x in prog["macros"]}
    for s in walk([m["body"]]):
        if s[0] == "g":
            for j, a in enumerate(s[2]):
                if a[0] == "ix":
                    if a[1] in m["params"]:
                        need = (a[2] + 1) if is_int(a[2]) else 1
                        old = roles.get(a[1], ("reg", 1))
                        roles[a[1]] = ("reg", max(old[1] if old[0] == "reg" else 1, need, 8))
                    if isinstance(a[2], str) and a[2] in m["params"]:
                        roles[a[2]] = ("idx", 1)
                elif a[0] == "id" and a[1] in m["params"] and s[1] in mnames and a[1] not in roles:
                    inner = _infer_roles(prog, mnames[s[1]])
                    ip = mnames[s[1]]["params"]
                    if j < len(ip) and ip[j] in inner:
                        roles[a[1]] = inner[ip[j]]
        elif s[0] in ("loop", "sub") and isinstance(s[1], str) and s[1] in m["params"]:
            roles[s[1]] = ("count", None)
    return roles


def check(case):
    from jaqalpaq.core.algorithm import expand_macros, fill_in_let

    prog = case["prog"]
    text = render.to_text(prog)
    try:
        ref = Ref(prog)
        m_ref = ref.meaning()
    except Invalid:
        raise Skip()
    st_, c = guard(parse, text, what="parse")
    if st_ == "err":
        raise Violation("rejected-valid-program", f"{c}\n--- program:\n{text}")
    # main body
    try:
        m_got = extract.meaning(c)
    except extract.ExtractError as e:
        raise Violation("main-body-unresolvable", f"{e}\n--- program:\n{text}")
    if not same_meaning(m_ref, m_got):
        raise Violation("main-body-meaning", f"expected {show(m_ref)}\ngot      {show(m_got)}\n--- program:\n{text}")
    # each macro body under probe arguments
    differ = False
    ex = extract.Extractor(c)
    for m in prog["macros"]:
        roles = _infer_roles(prog, m)
        probe = _probe_args(roles, m["params"], ref)
        try:
            mm_ref = ref.macro_meaning(m["name"], probe)
        except Invalid:
            continue
        try:
            mm_got = ex.macro_meaning(m["name"], probe)
        except extract.ExtractError as e:
            raise Violation("macro-body-unresolvable", f"macro {m['name']}: {e}\n--- program:\n{text}")
        if not same_meaning(mm_ref, mm_got):
            raise Violation(
                "macro-body-meaning",
                f"macro {m['name']} probe {probe}\nexpected {show(mm_ref)}\ngot      {show(mm_got)}\n--- program:\n{text}",
            )
    # passes agree with the reference too
    st_, e1 = guard(expand_macros, c, what="expand_macros")
    if st_ == "ok":
        try:
            me = extract.meaning(e1)
            if not same_meaning(m_ref, me):
                raise Violation("expanded-meaning", f"expected {show(m_ref)}\ngot      {show(me)}\n--- program:\n{text}")
        except extract.ExtractError as e:
            raise Violation("expanded-unresolvable", f"{e}\n--- program:\n{text}")
    st_, f1 = guard(fill_in_let, c, what="fill_in_let")
    if st_ == "ok":
        try:
            mf = extract.meaning(f1)
            if not same_meaning(m_ref, mf):
                raise Violation("let-filled-meaning", f"expected {show(m_ref)}\ngot      {show(mf)}\n--- program:\n{text}")
        except extract.ExtractError as e:
            raise Violation("let-filled-unresolvable", f"{e}\n--- program:\n{text}")
    # overriding a let that some macro parameter shadows: the parameter is a different binding and
    # stays what it is; only the header binding changes (main body, unshadowed uses in macros)
    _overridden_shadowed_let(prog, c, text)
    # alias fill-in on the unexpanded circuit may refuse (a macro body that indexes one of its
    # parameters), but when it answers, main body AND macro bodies must still mean the same
    from jaqalpaq.core.algorithm.fill_in_map import fill_in_map

    st_, g1 = guard(fill_in_map, c, what="fill_in_map")
    if st_ == "ok":
        try:
            mg = extract.meaning(g1)
            if not same_meaning(m_ref, mg):
                raise Violation("map-filled-meaning", f"expected {show(m_ref)}\ngot      {show(mg)}\n--- program:\n{text}")
            exg = extract.Extractor(g1)
            for m in prog["macros"]:
                probe = _probe_args(_infer_roles(prog, m), m["params"], ref)
                try:
                    mm_ref = ref.macro_meaning(m["name"], probe)
                except Invalid:
                    continue
                mm_g = exg.macro_meaning(m["name"], probe)
                if not same_meaning(mm_ref, mm_g):
                    raise Violation("map-filled-macro-body-meaning", f"macro {m['name']} probe {probe}\nexpected {show(mm_ref)}\ngot      {show(mm_g)}\n--- program:\n{text}")
        except extract.ExtractError as e:
            raise Violation("map-filled-unresolvable", f"{e}\n--- program:\n{text}")
    # metamorphic: drop every macro (and calls to them): meaning of remaining main-body statements unchanged
    mnames = {m["name"] for m in prog["macros"]}
    if mnames:
        p2 = dict(prog)
        p2["macros"] = []
        p2["body"] = [s for s in prog["body"] if not any(x[0] == "g" and x[1] in mnames for x in walk([s]))]
        try:
            r2 = Ref(p2).meaning()
            st_, c2 = guard(parse, render.to_text(p2), what="parse")
            if st_ == "ok":
                g2 = extract.meaning(c2)
                if not same_meaning(r2, g2):
                    raise Violation("main-body-meaning", f"(macros removed) expected {show(r2)} got {show(g2)}\n{render.to_text(p2)}")
        except (Invalid, extract.ExtractError):
            pass
    # non-triviality: identical statement text in two scopes with different reference meanings
    keyed = {}
    for scope, stmts, params in [("main", prog["body"], ())] + [(m["name"], [m["body"]], tuple(m["params"])) for m in prog["macros"]]:
        for s in walk(stmts):
            if s[0] == "g" and s[1] not in mnames:
                t = repr(s)
                captured = tuple(sorted(n for n in _all_names(s) if n in params))
                keyed.setdefault(t, set()).add((scope if captured else "header", captured))
    for t, scopes in keyed.items():
        if len(scopes) > 1:
            differ = True
    classes = []
    if differ:
        classes.append("identical-text-different-scope-meaning")
    if any(p in [n for n, _ in prog["lets"]] for m in prog["macros"] for p in m["params"]):
        classes.append("param-shadows-let")
    if any(prog["reg"] and p == prog["reg"][0] or p in [x[0] for x in prog["maps"]] for m in prog["macros"] for p in m["params"]):
        classes.append("param-shadows-register-or-alias")
    return {"nontrivial": differ, "classes": classes, "key": text, "sample": {"text": text}}


def _overridden_shadowed_let(prog, c, text):
    from jaqalpaq.core.algorithm import fill_in_let

    shadowed = [n for n, _v in prog["lets"] if any(n in m["params"] for m in prog["macros"])]
    if not shadowed:
        return
    lets = dict(prog["lets"])
    env = {}
    for n in shadowed:
        v = lets[n]
        for cand in ([v + 1, v - 1, 0] if is_int(v) else [v + 0.5]):
            if cand == v:
                continue
            trial = dict(env)
            trial[n] = cand
            try:
                Ref(prog, trial).validate()
            except Invalid:
                continue
            if gen.frozen_default_risk(prog, trial):
                continue
            env = trial
            break
    if not env:
        return
    ref = Ref(prog, env)
    m_ref = ref.validate()
    st_, f = guard(fill_in_let, c, dict(env), what="fill_in_let")
    if st_ == "err":
        raise Violation("let-override-rejected", f"{f}\n--- overrides {env}\n--- program:\n{text}")
    try:
        ex = extract.Extractor(f, {})
        m_f = ex.meaning()
        if not same_meaning(m_ref, m_f):
            raise Violation("let-override-meaning", f"expected {show(m_ref)}\ngot      {show(m_f)}\n--- overrides {env}\n--- program:\n{text}")
        for m in prog["macros"]:
            probe = _probe_args(_infer_roles(prog, m), m["params"], ref)
            try:
                mm_ref = ref.macro_meaning(m["name"], probe)
            except Invalid:
                continue
            mm_f = ex.macro_meaning(m["name"], probe)
            if not same_meaning(mm_ref, mm_f):
                raise Violation(
                    "let-override-macro-body-meaning",
                    f"macro {m['name']} probe {probe}\nexpected {show(mm_ref)}\ngot      {show(mm_f)}\n--- overrides {env}\n--- program:\n{text}",
                )
    except extract.ExtractError as e:
        raise Violation("let-override-unresolvable", f"{e}\n--- overrides {env}\n--- program:\n{text}")


def _all_names(s):
    out = set()
    for a in s[2]:
        if a[0] == "id":
            out.add(a[1])
        elif a[0] == "ix":
            out.add(a[1])
            if isinstance(a[2], str):
                out.add(a[2])
    return out


def generic(case):
    """The general program generator with frequent shadowing, same oracle."""
    return check({"prog": case["prog"], "pool": []})


def parts():
    return [
        Part("same-text-scopes", cases(), check, quick=4000, thorough=100000, min_nontrivial=0.15),
        Part(
            "generic-shadowing",
            gen.progs(gen.Cfg(shadow=0.7, general_numbers=False, usepulses=False, max_depth=3)),
            generic,
            quick=2000,
            thorough=50000,
        ),
    ]
