"""C17 — Jaqal text, the builder API and Q-syntax build the same circuit."""

import copy

from ..common import Violation, Skip, guard, parse, generate, render
from ..harness import Part
from .. import gen
from ..model import empty_prog, is_int, walk

PROPERTY = "C17"
RULE = (
    "Programs in the fragment all front ends can express (0-2 pulse imports of modules that cannot be loaded, 0-3 lets - a let may be defined from an earlier constant of the same value, which Q.let documents -, one register sized by literal or let, gates with "
    "numeric / let / qubit arguments incl. let-valued indices, legally nested sequential/parallel blocks, loops with "
    "sequential bodies and subcircuits with literal or let-valued counts); every let and the register is either "
    "user-named - with probability 1/2 from the auto-namer's own forms __r0..__r2 / __c0..__c2 - or anonymous.  The "
    "program is replayed on the Q object inside a @qsyntax.circuit function first; the names given to anonymous "
    "objects are read from the result and must differ from every user-chosen name of any kind; with those names "
    "the same program is built from text (parser), from the S-expression (circuitbuilder.build) and through "
    "CircuitBuilder/BlockBuilder method calls (core objects or names as arguments, loops evaluated lazily).  Oracle: "
    "all four circuits are pairwise == and generate identical text, where for the Q-syntax one the other three get "
    "the reference's wrap rule applied (wrap the body in prepare_all ... measure_all iff its first executed "
    "statement, descending through leading blocks and loops, is neither prepare_all nor a subcircuit; empty => "
    "wrap).  Non-trivial = nesting >= 2 with a subcircuit or let-valued count, or a user name of the auto-namer's "
    "form together with an anonymous object. distinct = program + naming."
)
ASSUMPTIONS = ["Q-syntax cannot express aliases, macros or parallel loop bodies: outside the common fragment"]

USER_LET = ["a", "n", "th", "__c0", "__c1", "__r0", "__c2"]
USER_REG = ["q", "r", "__r0", "__c0", "__r1"]
GATES = ["g", "h", "Rx", "MS"]
# pulse modules that cannot be imported: Q-syntax's default autoload_pulses="ignore" then keeps
# the gates anonymous, like parse(..., autoload_pulses=False)
Q_PULSES = ["nosuch_a.b", "nosuch_mod", ".nosuch_local", "nosuch.v1.std"]


def _case(ch):
    lets = []
    for _ in range(ch.int(0, 3)):
        name = None if ch.bool() else ch.pick(USER_LET)
        if name is not None and name in [l[0] for l in lets]:
            continue
        val = ch.int(1, 4) if ch.int(0, 2) else ch.pick([0.5, 2.0, -1.25, 7])
        lets.append([name, val])
    rname = None if ch.bool() else ch.pick([r for r in USER_REG if r not in [l[0] for l in lets]])
    size = ch.int(1, 4)
    rsize = size
    intlets = [i for i, l in enumerate(lets) if is_int(l[1]) and 1 <= l[1] <= 4]
    if intlets and ch.int(0, 2) == 0:
        li = ch.pick(intlets)
        rsize = "@L%d" % li
        size = lets[li][1]
    sigs = {}

    def arg():
        c = ch.int(0, 5)
        if c < 2:
            i = ch.int(0, size - 1)
            good = [j for j, l in enumerate(lets) if is_int(l[1]) and l[1] == i]
            if good and ch.bool():
                return ["ix", "@R", "@L%d" % ch.pick(good)]
            return ["ix", "@R", i]
        if c < 4 or not lets:
            return ["n", ch.pick([0, 1, 3, 0.25, -2.5, 1e-06])]
        return ["id", "@L%d" % ch.int(0, len(lets) - 1)]

    def gate():
        name = ch.pick(GATES + ["prepare_all", "measure_all"]) if ch.int(0, 5) == 0 else ch.pick(GATES)
        if name in ("prepare_all", "measure_all"):
            return ["g", name, []]
        if name not in sigs:
            sigs[name] = ch.int(0, 3)
        return ["g", name, [arg() for _ in range(sigs[name])]]

    def count():
        good = [j for j, l in enumerate(lets) if is_int(l[1]) and 0 <= l[1] <= 4]
        if good and ch.int(0, 2) == 0:
            return "@L%d" % ch.pick(good)
        return ch.int(0, 3)

    def items(ctx, depth, in_sub, in_par):
        out = []
        for _ in range(ch.int(0, 3)):
            kinds = ["gate", "gate"]
            if depth > 0:
                if ctx in ("top", "seq"):
                    kinds += ["par", "loop"]
                    if not in_sub and not in_par:
                        kinds += ["sub", "sub"]
                if ctx in ("top", "par"):
                    kinds.append("seq")
            k = ch.pick(kinds)
            if k == "gate":
                out.append(gate())
            elif k == "par":
                out.append(["par", items("par", depth - 1, in_sub, True)])
            elif k == "seq":
                out.append(["seq", items("seq", depth - 1, in_sub, in_par)])
            elif k == "loop":
                out.append(["loop", count(), ["seq", items("seq", depth - 1, in_sub, in_par)]])
            else:
                out.append(["sub", None if ch.bool() else count(), items("seq", depth - 1, True, in_par)])
        return out

    body = items("top", 3, False, False)
    if ch.int(0, 3) == 0:
        lead = ch.pick(
            [
                ["g", "prepare_all", []],
                ["sub", None, [gate()]],
                ["loop", 2, ["seq", [["sub", None, []]]]],
                ["seq", [["g", "prepare_all", []], gate()]],
                ["seq", []],
                ["loop", 1, ["seq", [["g", "prepare_all", []]]]],
                ["seq", [["par", []], ["g", "prepare_all", []]]],
                ["par", [["seq", []], ["g", "prepare_all", []]]],
                ["loop", 0, ["seq", [["par", []], ["sub", None, []]]]],
                ["par", [["g", "prepare_all", []]]],
            ]
        )
        body = [lead] + body
    # Q.let is documented to take a QConstant too (the value is copied): the same program
    let_from = {}
    for i, (_n, v) in enumerate(lets):
        same = [j for j in range(i) if type(lets[j][1]) is type(v) and lets[j][1] == v]
        if same and ch.bool():
            let_from[str(i)] = ch.pick(same)
    usep = ch.sample(Q_PULSES, ch.int(1, 2)) if ch.int(0, 3) == 0 else []
    if usep and ch.int(0, 2) == 0:
        usep = usep + [usep[0]]  # the same module named again (A, B, A): order and repeats are kept
    native = ch.int(0, 3) == 0 and not usep
    return {"lets": lets, "reg": [rname, rsize], "body": body, "oo_seed": ch.int(0, 10**6), "usepulses": usep, "let_from": let_from, "native": native}


# ------------------------------------------------------------------------------ reference wrap rule


def starts_with_prepare(stmts):
    """First executed statement, descending through leading blocks and loops, is prepare_all or
    a subcircuit."""
    if not stmts:
        return False
    s = stmts[0]
    if s[0] == "g":
        return s[1] == "prepare_all"
    if s[0] == "sub":
        return True
    if s[0] in ("seq", "par"):
        return starts_with_prepare(s[1])
    if s[0] == "loop":
        return starts_with_prepare(s[2][1])
    return False


# ------------------------------------------------------------------------------ the four front ends


def _natives(case):
    """With case['native']: a native gate set handed to every front end the same way - every
    gate the program calls, with its arity and untyped parameters, plus prepare_all/measure_all."""
    if not case.get("native"):
        return None
    from jaqalpaq.core import GateDefinition, Parameter, ParamType
    from jaqalpaq.core.gatedef import BusyGateDefinition

    nat = {"prepare_all": BusyGateDefinition("prepare_all"), "measure_all": BusyGateDefinition("measure_all")}
    for s_ in walk(case["body"]):
        if s_[0] == "g" and s_[1] not in nat:
            nat[s_[1]] = GateDefinition(s_[1], [Parameter("p%d" % i, ParamType.NONE) for i in range(len(s_[2]))])
    return nat


def build_q(case):
    from jaqalpaq.qsyntax import circuit as qcircuit

    lets, reg, body = case["lets"], case["reg"], case["body"]

    let_from = case.get("let_from") or {}

    def program(Q):
        for k, m in enumerate(case.get("usepulses") or []):
            if k % 3 == 0:
                Q.usepulses(m)
            elif k % 3 == 1:
                Q.usepulses(m, "*")
            else:
                Q.usepulses(m, all)
        L = []
        for i, (n, v) in enumerate(lets):
            j = let_from.get(str(i))
            if j is not None and j < i and type(lets[j][1]) is type(v) and lets[j][1] == v:
                v = L[j]
            L.append(Q.let(v, name=n) if n is not None else Q.let(v))
        size = L[int(reg[1][2:])] if isinstance(reg[1], str) else reg[1]
        R = Q.register(size, name=reg[0]) if reg[0] is not None else Q.register(size)

        def val(x):
            if isinstance(x, str) and x.startswith("@L"):
                return L[int(x[2:])]
            return x

        def arg(a):
            if a[0] == "n":
                return a[1]
            if a[0] == "id":
                return val(a[1])
            return R[val(a[2])]

        def run(stmts):
            for s in stmts:
                if s[0] == "g":
                    getattr(Q, s[1])(*[arg(a) for a in s[2]])
                elif s[0] == "seq":
                    with Q.sequential():
                        run(s[1])
                elif s[0] == "par":
                    with Q.parallel():
                        run(s[1])
                elif s[0] == "loop":
                    with Q.loop(val(s[1])):
                        run(s[2][1])
                elif s[0] == "sub":
                    if s[1] is None:
                        # no count: either form
                        with (Q.subcircuit() if len(s[2]) % 2 else Q.subcircuit(None)):
                            run(s[2])
                    else:
                        with Q.subcircuit(val(s[1])):
                            run(s[2])

        run(body)

    nat = _natives(case)
    fn = qcircuit(inject_pulses=nat)(program) if nat is not None else qcircuit(program)
    first = fn()
    # the decorated function is a program: calling it again builds the same circuit again
    _SECOND[:] = [guard(fn, what="qsyntax (second call of the same decorated function)")]
    return first


_SECOND = []


def named_prog(case, let_names, reg_name, wrap):
    p = empty_prog()
    p["lets"] = [[n, v] for n, (_u, v) in zip(let_names, case["lets"])]
    p["usepulses"] = list(case.get("usepulses") or [])

    def nm(x):
        if isinstance(x, str) and x.startswith("@L"):
            return let_names[int(x[2:])]
        if x == "@R":
            return reg_name
        return x

    p["reg"] = [reg_name, nm(case["reg"][1])]

    def conv(stmts):
        out = []
        for s in stmts:
            if s[0] == "g":
                out.append(["g", s[1], [[a[0]] + [nm(x) for x in a[1:]] for a in s[2]]])
            elif s[0] in ("seq", "par"):
                out.append([s[0], conv(s[1])])
            elif s[0] == "loop":
                out.append(["loop", nm(s[1]), ["seq", conv(s[2][1])]])
            else:
                out.append(["sub", nm(s[1]), conv(s[2])])
        return out

    body = conv(case["body"])
    if wrap:
        body = [["g", "prepare_all", []]] + body + [["g", "measure_all", []]]
    p["body"] = body
    return p


def build_oo(prog, seed, natives=None):
    """Replay the program through CircuitBuilder / BlockBuilder method calls."""
    from jaqalpaq.core.circuitbuilder import CircuitBuilder, SequentialBlockBuilder

    ch = gen.Chooser(seed)
    cb = CircuitBuilder(native_gates=natives)
    consts = {}
    for m in prog["usepulses"]:
        cb.usepulses(m)
    for n, v in prog["lets"]:
        consts[n] = cb.let(n, v)
    rname, rsize = prog["reg"]
    reg = cb.register(rname, consts[rsize] if isinstance(rsize, str) else rsize)

    def arg(a):
        if a[0] == "n":
            return a[1]
        if a[0] == "id":
            return consts[a[1]] if ch.bool() else a[1]
        idx = a[2]
        if isinstance(idx, str):
            return ("array_item", a[1], idx)
        return reg[idx] if ch.bool() else ("array_item", a[1], idx)

    def cnt(x):
        if isinstance(x, str):
            return consts[x] if ch.bool() else x
        return x

    def fill(bb, stmts):
        prev = None
        for s in stmts:
            if s[0] == "g":
                # no_duplicate only drops a gate identical to the entry right before it: when the
                # previous entry is anything else it must make no difference
                if prev is not None and prev != s and ch.bool():
                    bb.gate(s[1], *[arg(a) for a in s[2]], no_duplicate=True)
                else:
                    bb.gate(s[1], *[arg(a) for a in s[2]])
                prev = s
                continue
            prev = s
            if s[0] in ("seq", "par"):
                fill(bb.block(parallel=(s[0] == "par")), s[1])
            elif s[0] == "loop":
                inner = SequentialBlockBuilder()
                fill(inner, s[2][1])
                bb.loop(cnt(s[1]), inner, unevaluated=True)
            else:
                sb = bb.subcircuit() if s[1] is None else bb.subcircuit(cnt(s[1]))
                fill(sb, s[2])

    fill(cb, prog["body"])
    return cb.build()


def check(case):
    from jaqalpaq.core.circuitbuilder import build

    if len(case["reg"]) != 2 or any(len(l) != 2 for l in case["lets"]):
        raise Skip()  # a shrink candidate outside the case format
    user_names = [n for n, _v in case["lets"] if n is not None] + ([case["reg"][0]] if case["reg"][0] is not None else [])
    if len(set(user_names)) != len(user_names):
        raise Skip()
    desc = f"lets {case['lets']} register {case['reg']}\nbody {case['body']}"
    st_, cq = guard(build_q, case, what="qsyntax")
    if st_ == "err":
        raise Violation("qsyntax-build-raised", f"{cq}\n{desc}")
    st2, cq2 = _SECOND[0]
    if st2 == "err" or not (cq2 == cq) or generate(cq2) != generate(cq):
        raise Violation("qsyntax-second-call-differs", f"{cq2 if st2 == 'err' else generate(cq2)}\n--- first call:\n{generate(cq)}\n{desc}")
    let_names = list(cq.constants)
    fund = [r for r in cq.registers.values() if r.fundamental]
    if len(let_names) != len(case["lets"]) or len(fund) != 1:
        raise Violation("qsyntax-declarations", f"constants {let_names} registers {list(cq.registers)}\n{desc}")
    reg_name = fund[0].name
    anon = [n for n, (u, _v) in zip(let_names, case["lets"]) if u is None] + ([reg_name] if case["reg"][0] is None else [])
    for n, (u, _v) in zip(let_names, case["lets"]):
        if u is not None and n != u:
            raise Violation("user-name-changed", f"let {u} became {n}\n{desc}")
    if case["reg"][0] is not None and reg_name != case["reg"][0]:
        raise Violation("user-name-changed", f"register {case['reg'][0]} became {reg_name}\n{desc}")
    if len(set(anon)) != len(anon) or set(anon) & set(user_names):
        raise Violation("auto-name-collision", f"auto names {anon}, user names {user_names}\n{desc}")
    wrap = not starts_with_prepare(case["body"])
    prog = named_prog(case, let_names, reg_name, wrap)
    text = render.to_text(prog)
    nat = _natives(case)
    kw = {} if nat is None else {"inject_pulses": nat}
    st_, ct = guard(parse, text, what="parse", **kw)
    if st_ == "err":
        raise Violation("text-rejected", f"{ct}\n--- program:\n{text}")
    st_, cs = guard(build, render.to_sexpr(prog), what="build(sexpr)", **kw)
    if st_ == "err":
        raise Violation("sexpr-rejected", f"{cs}\n--- program:\n{text}")
    st_, co = guard(build_oo, prog, case["oo_seed"], nat, what="CircuitBuilder")
    if st_ == "err":
        raise Violation("builder-api-rejected", f"{co}\n--- program:\n{text}")
    circs = {"text": ct, "sexpr": cs, "builder-api": co, "qsyntax": cq}
    texts = {}
    for k, c in circs.items():
        st_, t = guard(generate, c, what=f"generate({k})")
        texts[k] = t if st_ == "ok" else f"<generate raised {t}>"
    names = list(circs)
    for i in range(len(names)):
        for j in range(i + 1, len(names)):
            a, b = names[i], names[j]
            if not (circs[a] == circs[b]) or not (circs[b] == circs[a]) or texts[a] != texts[b]:
                kind = "wrap-rule" if "qsyntax" in (a, b) and _differs_only_by_wrap(texts[a], texts[b]) else "front-ends-differ"
                raise Violation(kind, f"{a} vs {b}\n--- {a}:\n{texts[a]}\n--- {b}:\n{texts[b]}\n--- program (reference wrap={wrap}):\n{text}", where=f"{a}/{b}")
    from ..model import depth_of

    d = depth_of(case["body"])
    has_sub_or_letcount = any(s[0] == "sub" or (s[0] in ("loop", "sub") and isinstance(s[1], str)) for s in walk(case["body"]))
    autoform = any(n.startswith("__") for n in user_names) and bool(anon)
    classes = ["wrap:%s" % wrap, "anon:%d" % len(anon)] + (["user-name-of-auto-form"] if any(n.startswith("__") for n in user_names) else [])
    classes += ["native-gate-set"] if nat is not None else []
    classes += ["usepulses:%d" % len(case.get("usepulses") or [])] + (["let-from-constant"] if case.get("let_from") else [])
    return {"nontrivial": (d >= 2 and has_sub_or_letcount) or autoform, "classes": classes, "key": repr(case), "sample": {"text": text, "auto_names": anon, "wrapped": wrap}}


# ------------------------------------------------------------------------------ full builder API
# Aliases, macros and pulse imports cannot be written in Q-syntax, but the other two front ends
# (text and CircuitBuilder, anchored at circuitbuilder.py:587-906) both express them: this part
# replays general programs through every CircuitBuilder / BlockBuilder method, choosing at random
# between the documented argument forms (names or core objects, evaluated at once or lazily).

RULE_FULL = (
    "builder-api-full: general programs the reference accepts (lets, register, whole/single/slice aliases with "
    "literal or let bounds, pulse imports, macros, nested blocks/loops/subcircuits, anonymous gates) are built "
    "from text, from the S-expression and through CircuitBuilder.let/register/map/macro/usepulses and "
    "BlockBuilder.gate/block/loop/subcircuit calls; every declaration and loop is evaluated immediately "
    "(documented default) whenever all it refers to is available as core objects, with probability 1/2, else "
    "passed lazily; references are given as names or objects at random.  Oracle: all three accept, are pairwise "
    "== and generate the same text up to the spelling of equal numbers, and the builder circuit has the reference's meaning and declarations."
)

RULE = RULE + "  " + RULE_FULL


def build_oo_full(prog, seed):
    from jaqalpaq.core.circuitbuilder import CircuitBuilder, SequentialBlockBuilder, ParallelBlockBuilder, SubcircuitBlockBuilder

    ch = gen.Chooser(seed)
    cb = CircuitBuilder()
    objs = {}
    modes = []

    def ref(name, want_obj):
        """name or object for a header name; want_obj=True => object required (None if absent)"""
        if want_obj:
            return objs.get(name)
        if name in objs and ch.bool():
            return objs[name]
        return name

    def refs_available(names):
        return all(n in objs for n in names)

    for m in prog["usepulses"]:
        ev = ch.bool()
        cb.usepulses(m, unevaluated=not ev)
        modes.append("usepulses:" + ("eval" if ev else "lazy"))
    for n, v in prog["lets"]:
        ev = ch.bool()
        r = cb.let(n, v, unevaluated=not ev)
        if ev:
            objs[n] = r
        modes.append("let:" + ("eval" if ev else "lazy"))
    if prog["reg"] is not None:
        n, size = prog["reg"]
        deps = [size] if isinstance(size, str) else []
        ev = refs_available(deps) and ch.bool()
        r = cb.register(n, ref(size, ev) if deps else size, unevaluated=not ev)
        if ev:
            objs[n] = r
        modes.append("register:" + ("eval" if ev else "lazy"))
    for n, src, sel in prog["maps"]:
        deps = [src] + ([x for x in sel[1:] if isinstance(x, str)] if sel is not None else [])
        ev = refs_available(deps) and ch.bool()

        def iv(x):
            return ref(x, ev) if isinstance(x, str) else x

        if sel is None:
            r = cb.map(n, ref(src, ev), unevaluated=not ev)
        elif sel[0] == "i":
            r = cb.map(n, ref(src, ev), iv(sel[1]), unevaluated=not ev)
        else:
            r = cb.map(n, ref(src, ev), slice(iv(sel[1]), iv(sel[2]), iv(sel[3])), unevaluated=not ev)
        if ev:
            objs[n] = r
        modes.append("map:" + ("eval" if ev else "lazy"))

    def arg(a, params, state):
        """state['names'] is set when a header name is passed as a string (needs the circuit context)."""
        if a[0] == "n":
            return a[1]
        if a[0] == "id":
            if a[1] in params:
                state["params"] = True
                return a[1]
            r = ref(a[1], False)
            if isinstance(r, str):
                state["names"] = True
            return r
        base, idx = a[1], a[2]
        if base in params or (isinstance(idx, str) and idx in params):
            state["params"] = True
            if base not in params:
                state["names"] = True
            if isinstance(idx, str) and idx not in params:
                state["names"] = True
            return ("array_item", base, idx)
        b = ref(base, False)
        i = ref(idx, False) if isinstance(idx, str) else idx
        if isinstance(b, str) or isinstance(i, str):
            state["names"] = True
            return ("array_item", b, i)
        if ch.bool():
            return b[i]
        return ("array_item", b, i)

    def cnt(x, params, state):
        if isinstance(x, str):
            if x in params:
                state["params"] = True
                return x
            r = ref(x, False)
            if isinstance(r, str):
                state["names"] = True
            return r
        return x

    def fill(bb, stmts, params, state):
        for s in stmts:
            if s[0] == "g":
                bb.gate(s[1], *[arg(a, params, state) for a in s[2]])
            elif s[0] in ("seq", "par"):
                fill(bb.block(parallel=(s[0] == "par")), s[1], params, state)
            elif s[0] == "loop":
                inner = SequentialBlockBuilder() if s[2][0] == "seq" else ParallelBlockBuilder()
                st = {}
                fill(inner, s[2][1], params, st)
                c = cnt(s[1], params, st)
                closed = not st.get("names") and not st.get("params")
                ev = closed and ch.bool()
                bb.loop(c, inner if ch.bool() else inner.expression, unevaluated=not ev)
                modes.append("loop:" + ("eval" if ev else "lazy"))
                state.update(st)
            elif s[0] == "sub":
                st = {}
                c = None if s[1] is None else cnt(s[1], params, st)
                sb = bb.subcircuit() if c is None and ch.bool() else bb.subcircuit(c)
                fill(sb, s[2], params, st)
                state.update(st)
            else:
                raise ValueError(s)

    for m in prog["macros"]:
        body = m["body"]
        if body[0] not in ("seq", "par"):
            raise ValueError(body)
        inner = SequentialBlockBuilder() if body[0] == "seq" else ParallelBlockBuilder()
        st = {}
        fill(inner, body[1], set(m["params"]), st)
        ev = not st.get("names") and ch.bool()
        params = list(m["params"])
        cb.macro(m["name"], params if params or ch.bool() else None, inner if ch.bool() else inner.expression, unevaluated=not ev)
        modes.append("macro:" + ("eval" if ev else "lazy"))
    body = prog["body"]
    if body and ch.int(0, 2) == 0:
        # build() in the middle (e.g. to look at the circuit so far), then go on adding - also
        # INSIDE blocks that are already attached; the final build() must see everything
        cut = ch.int(0, len(body))
        fill(cb, body[:cut], set(), {})
        holders = []
        tail = []
        for s_ in body[cut:]:
            if s_[0] in ("seq", "par") and ch.bool():
                bb = cb.block(parallel=(s_[0] == "par"))
                holders.append((bb, s_[1]))
            elif s_[0] == "sub" and ch.bool():
                st0 = {}
                c0 = None if s_[1] is None else cnt(s_[1], set(), st0)
                holders.append((cb.subcircuit(c0), s_[2]))
            else:
                tail.append(s_)
                fill(cb, [s_], set(), {})
        cb.build()
        modes.append("built-midway")
        for bb, stmts in holders:
            fill(bb, stmts, set(), {})
        if holders:
            # the held blocks were attached in their position before the tail statements that
            # follow them were added, so the order of the body is preserved
            pass
        return cb.build(), modes
    fill(cb, body, set(), {})
    return cb.build(), modes


def check_full(case):
    from jaqalpaq.core.circuitbuilder import build
    from ..common import Ref, Invalid, extract, same_meaning, show

    prog = case["prog"]
    if any(s[0] == "branch" for s in walk(prog["body"])):
        raise Skip()
    try:
        ref = Ref(prog)
        want = ref.validate()
        wantd = ref.declarations()
    except Invalid:
        raise Skip()
    text = render.to_text(prog)
    st_, ct = guard(parse, text, what="parse")
    if st_ == "err":
        raise Skip()  # acceptance of valid programs is C02/C14's business
    st_, cs = guard(build, render.to_sexpr(prog), what="build(sexpr)")
    if st_ == "err":
        raise Violation("sexpr-rejected", f"{cs}\n--- program:\n{text}")
    st_, r = guard(build_oo_full, prog, case["oo_seed"], what="CircuitBuilder")
    if st_ == "err":
        raise Violation("builder-api-rejected", f"{r}\n--- program:\n{text}", where=type(r).__name__)
    co, modes = r
    circs = {"text": ct, "sexpr": cs, "builder-api": co}
    texts = {}
    for k, c in circs.items():
        st_, t = guard(generate, c, what=f"generate({k})")
        texts[k] = t if st_ == "ok" else f"<generate raised {t}>"
    names = list(circs)
    for i in range(len(names)):
        for j in range(i + 1, len(names)):
            a, b = names[i], names[j]
            # numbers are compared by value (C20): the gate memo may hand `g 1.0` the earlier `g 1`
            if not (circs[a] == circs[b]) or not (circs[b] == circs[a]) or _by_value(texts[a]) != _by_value(texts[b]):
                raise Violation("front-ends-differ", f"{a} vs {b} (builder modes {modes})\n--- {a}:\n{texts[a]}\n--- {b}:\n{texts[b]}\n--- program:\n{text}", where=f"{a}/{b}")
    try:
        ex = extract.Extractor(co)
        got = ex.meaning()
        gotd = ex.declarations()
    except extract.ExtractError as e:
        raise Violation("builder-circuit-no-meaning", f"{e}\n--- program:\n{text}")
    if not same_meaning(want, got):
        raise Violation("builder-meaning", f"builder modes {modes}\nreference:\n{show(want)}\nbuilder circuit:\n{show(got)}\n--- program:\n{text}")
    gotd.pop("nreg", None)
    if _plain(wantd) != _plain(gotd):
        raise Violation("builder-declarations", f"builder modes {modes}\nreference {wantd}\nbuilder   {gotd}\n--- program:\n{text}")
    # core Macro objects taken out of this circuit and placed into a SECOND circuit in which the
    # macros they call are spelled with other parameter names (alpha-renamed: same meaning): the
    # reused objects must be linked to the second circuit's macros, not keep their old links
    calls_macro = any(x[0] == "g" and x[1] in {m["name"] for m in prog["macros"]} for m in prog["macros"] for x in walk([m["body"]]))
    if calls_macro and not prog["usepulses"]:
        ch2 = gen.Chooser(case["oo_seed"] + 17)
        p2 = copy.deepcopy(prog)
        reuse = []
        for m in p2["macros"]:
            if ch2.bool():
                reuse.append(m["name"])
                continue
            ren = {q: q + "_r" for q in m["params"]}
            taken_ = {l[0] for l in prog["lets"]} | {x[0] for x in prog["maps"]} | {prog["reg"][0] if prog["reg"] else ""}
            if any(v in taken_ for v in ren.values()):
                reuse.append(m["name"])
                continue
            m["params"] = [ren[q] for q in m["params"]]
            for x in walk([m["body"]]):
                if x[0] == "g":
                    for a in x[2]:
                        for j in range(1, len(a)):
                            if isinstance(a[j], str) and a[j] in ren:
                                a[j] = ren[a[j]]
                elif x[0] in ("loop", "sub") and isinstance(x[1], str) and x[1] in ren:
                    x[1] = ren[x[1]]
        if reuse and len(reuse) < len(p2["macros"]):
            sx = render.to_sexpr(p2)
            for i, item in enumerate(sx):
                if isinstance(item, list) and item and item[0] == "macro" and item[1] in reuse:
                    sx[i] = co.macros[item[1]]
            st_, c2 = guard(build, sx, what="build(second circuit with reused Macro objects)")
            if st_ == "err":
                raise Violation("builder-api-rejected", f"second circuit reusing Macro objects {reuse}: {c2}\n--- program:\n{text}", where="macro-reuse")
            from jaqalpaq.core.algorithm import expand_macros

            try:
                want2 = Ref(p2).validate()
                got2 = extract.Extractor(c2).meaning()
                st_, e2 = guard(expand_macros, c2, what="expand_macros(second circuit)")
                gote = extract.Extractor(e2).meaning() if st_ == "ok" else None
            except (Invalid, extract.ExtractError) as e:
                raise Violation("builder-circuit-no-meaning", f"second circuit reusing Macro objects {reuse}: {e}\n--- program:\n{text}", where="macro-reuse")
            if not same_meaning(want2, got2) or gote is None or not same_meaning(want2, gote):
                raise Violation("builder-meaning", f"second circuit reusing Macro objects {reuse} (other macros alpha-renamed)\nreference:\n{show(want2)}\ncircuit:\n{show(got2)}\nexpanded:\n{show(gote) if gote is not None else e2}\n--- program:\n{text}", where="macro-reuse")
            modes.append("macro-objects-reused")
    kinds = sorted(set(modes))
    evald = sum(1 for m in modes if m.endswith(":eval"))
    nontrivial = bool(prog["maps"] or prog["macros"]) and evald >= 1 and any(m.endswith(":lazy") for m in modes)
    return {"nontrivial": nontrivial, "classes": kinds, "key": text + repr(modes), "sample": {"text": text, "builder_modes": modes}}


def _by_value(text):
    out = []
    for tok in text.split():
        try:
            v = float(tok)
            out.append(repr(0.0 if v == 0 else v))  # 0.0 and -0.0 are equal numbers (C20)
        except ValueError:
            out.append(tok)
    return out


def _plain(x):
    if isinstance(x, (list, tuple)):
        return [_plain(v) for v in x]
    if isinstance(x, dict):
        return {k: _plain(v) for k, v in x.items()}
    return repr(x) if isinstance(x, float) else x


def _full_cases():
    cfg = gen.Cfg(max_depth=4)

    def mk(seed):
        ch = gen.Chooser(seed)
        prog, _b = gen.make_prog(ch, cfg)
        return {"prog": prog, "oo_seed": ch.int(0, 10**9)}

    return gen.SEEDS.map(mk)


# ------------------------------------------------------------------------------ Q-syntax pulse loading


def _autoload_enum(tier):
    for k in range(4):
        yield {"k": k}


def qsyntax_autoload(case):
    """Q-syntax's default autoload_pulses="ignore" uses a pulse module when it can be imported
    and keeps gates anonymous when it cannot - decided at every call: the same Q function is
    called before and after its pulse module becomes importable (a session in which the user
    fixes sys.path), and must agree with the text front end each time."""
    import sys
    import types

    from jaqalpaq.qsyntax import circuit as qcircuit
    from jaqalpaq.core import GateDefinition, Parameter, ParamType
    from jaqalpaq.core.gatedef import BusyGateDefinition

    k = case["k"]
    name = "vlib_late_pulses_%d" % k
    nq = 1 + k % 2
    sys.modules.pop(name, None)

    def program(Q):
        Q.usepulses(name)
        r = Q.register(2, "r")
        Q.XL(*[r[i] for i in range(nq)])

    def wrong(Q):
        Q.usepulses(name)
        r = Q.register(3, "r")
        Q.XL(*[r[i] for i in range(nq + 1)])

    text = f"from {name} usepulses *\nregister r[2]\nprepare_all\nXL " + " ".join(f"r[{i}]" for i in range(nq)) + "\nmeasure_all\n"
    try:
        st_, c1 = guard(lambda: qcircuit(program)(), what="qsyntax (module missing)")
        if st_ == "err":
            raise Violation("qsyntax-build-raised", f"module not importable: {c1}")
        t1 = parse(text, autoload_pulses=False)
        if not (c1 == t1) or generate(c1) != generate(t1) or c1.native_gates:
            raise Violation("front-ends-differ", f"module not importable:\n{generate(c1)}\nvs text\n{generate(t1)}", where="autoload-missing")
        mod = types.ModuleType(name)
        gatesd = {
            "prepare_all": BusyGateDefinition("prepare_all"),
            "measure_all": BusyGateDefinition("measure_all"),
            "XL": GateDefinition("XL", [Parameter(f"a{i}", ParamType.QUBIT) for i in range(nq)]),
        }
        mod.jaqal_gates = types.SimpleNamespace(ALL_GATES=gatesd)
        sys.modules[name] = mod
        st_, c2 = guard(lambda: qcircuit(program)(), what="qsyntax (module importable)")
        if st_ == "err":
            raise Violation("qsyntax-build-raised", f"module importable: {c2}")
        t2 = parse(text, autoload_pulses=True)
        if not (c2 == t2) or set(c2.native_gates) != set(gatesd) or c2.body.statements[1].gate_def is not gatesd["XL"]:
            raise Violation("front-ends-differ", f"module importable now, Q-syntax native gates {sorted(c2.native_gates)}, text {sorted(t2.native_gates)}", where="autoload-late")
        st_, c3 = guard(lambda: qcircuit(wrong)(), what="qsyntax (wrong arity)")
        if st_ == "ok":
            raise Violation("front-ends-differ", "a call with the wrong number of arguments is accepted although the pulse module is importable", where="autoload-late-arity")
    finally:
        sys.modules.pop(name, None)
    return {"nontrivial": True, "classes": ["qubits:%d" % nq], "key": repr(case), "sample": {"text": text}}


# ------------------------------------------------------------------------------ stretch_register


def _stretch_gen(ch):
    n = ch.int(1, 4)
    return {"n": n, "new": n + ch.pick([-1, 0, 1, 1, 2, 3]), "evaluated": ch.bool(), "aliases": [ch.pick(["whole", "slice", "single", "whole-of-whole"]) for _ in range(ch.int(0, 3))], "by_object": ch.bool(), "ask_size_first": ch.bool()}


def builder_stretch(case):
    """CircuitBuilder.stretch_register(new) enlarges the register to max(old, new) and answers
    whether new >= old; aliases made BEFORE the stretch - from the returned Register object or
    by name - follow the register as the text form `register r[max]` with the same map
    statements does (explicit slice bounds stay as written)."""
    from jaqalpaq.core.circuitbuilder import CircuitBuilder

    n, new, ev = case["n"], case["new"], case["evaluated"]
    if not (1 <= n <= 8 and 0 <= new <= 12):
        raise Skip()
    final = max(n, new)
    cb = CircuitBuilder()
    r = cb.register("r", n, unevaluated=not ev)
    lines = []
    names = []
    for i, kind in enumerate(case["aliases"]):
        nm = "a%d" % i
        src_name = "r"
        if kind == "whole-of-whole" and not names:
            kind = "whole"
        by_obj = case["by_object"] and ev
        if kind == "whole":
            obj = cb.map(nm, r if by_obj else "r", unevaluated=not by_obj)
            lines.append(f"map {nm} r")
            top = final - 1
        elif kind == "slice":
            obj = cb.map(nm, r if by_obj else "r", slice(0, n, 1), unevaluated=not by_obj)
            lines.append(f"map {nm} r[0:{n}:1]")
            top = n - 1
        elif kind == "single":
            obj = cb.map(nm, r if by_obj else "r", n - 1, unevaluated=not by_obj)
            lines.append(f"map {nm} r[{n - 1}]")
            top = None
        else:
            prev, pobj, ptop = names[-1]
            if ptop is None:
                continue
            obj = cb.map(nm, pobj if (by_obj and pobj is not None) else prev, unevaluated=not (by_obj and pobj is not None))
            lines.append(f"map {nm} {prev}")
            top = ptop
        if case["ask_size_first"] and by_obj and top is not None and hasattr(obj, "resolve_size"):
            obj.resolve_size()  # looking at an alias must not freeze it
        names.append((nm, obj if by_obj else None, top))
    st_, ans = guard(cb.stretch_register, new, what="stretch_register")
    if st_ == "err":
        raise Violation("builder-api-rejected", f"stretch_register({new}) on r[{n}]: {ans}")
    if bool(ans) != (new >= n):
        raise Violation("stretch-answer", f"stretch_register({new}) on r[{n}] answered {ans!r}")
    body = [f"g r[{final - 1}]"]
    cb.gate("g", ("array_item", "r", final - 1))
    for nm, _o, top in names:
        if top is None:
            cb.gate("g", nm)
            body.append(f"g {nm}")
        else:
            cb.gate("g", ("array_item", nm, top))
            body.append(f"g {nm}[{top}]")
    text = "\n".join([f"register r[{final}]"] + lines + body) + "\n"
    st_, co = guard(cb.build, what="CircuitBuilder.build")
    if st_ == "err":
        raise Violation("builder-api-rejected", f"{co}\n--- the text form is legal:\n{text}\n(evaluated={ev}, aliases from objects={case['by_object'] and ev})", where="stretch")
    ct = parse(text)
    tb, tt = generate(co), generate(ct)
    if not (co == ct) or not (ct == co) or tb != tt:
        raise Violation("front-ends-differ", f"after stretch_register({new}) on r[{n}]\n--- builder:\n{tb}\n--- text:\n{tt}", where="stretch")
    st_, back = guard(parse, tb, what="reparse")
    if st_ == "err" or not (back == co):
        raise Violation("front-ends-differ", f"the builder circuit's own text does not parse back to it: {back if st_ == 'err' else ''}\n{tb}", where="stretch-roundtrip")
    return {"nontrivial": new > n and bool(names), "classes": ["enlarged:%s" % (new > n), "aliases:%d" % len(names), "evaluated:%s" % ev], "key": repr(case), "sample": {"text": text, "old": n, "new": new}}


def _differs_only_by_wrap(a, b):
    strip = lambda t: [l for l in t.splitlines() if l.strip() not in ("prepare_all", "measure_all")]
    return strip(a) == strip(b)


def parts():
    return [
        Part("front-ends", gen.cases(_case), check, quick=4000, thorough=100000, min_nontrivial=0.2),
        Part("builder-api-full", _full_cases(), check_full, quick=2500, thorough=60000, min_nontrivial=0.2),
        Part("builder-stretch", gen.cases(_stretch_gen), builder_stretch, quick=800, thorough=10000, min_nontrivial=0.15),
        Part("qsyntax-autoload", None, qsyntax_autoload, quick=0, thorough=0, exhaustive=_autoload_enum, shards=1),
    ]
