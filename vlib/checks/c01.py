"""C01 — generated Jaqal text parses back to the same circuit (round trip + fixpoint)."""

from hypothesis import strategies as st

from ..common import (
    Violation,
    Skip,
    guard,
    parse,
    generate,
    extract,
    render,
    same_meaning,
    show,
    prog_features,
    depth,
)
from ..harness import Part
from .. import gen, gates

PROPERTY = "C01"
RULE = (
    "Programs are drawn constructively from the full header/body grammar (lets with ints/floats of every "
    "repr class, register sized by literal or let, whole/single/strided aliases with literal, defaulted or "
    "let-valued bounds, pulse imports, macros with parameters used as qubit/number/array/index/count, legal "
    "seq/par/loop/subcircuit nesting to depth 6) and turned into a circuit three ways: parsed with anonymous "
    "gates, parsed with an injected native gate set, built through circuitbuilder.build from the S-expression. "
    "Oracle: generate -> parse succeeds, equals the original (==), same meaning tree (numbers compared by type "
    "and repr), same declarations, and generating again is byte-identical. Non-trivial = the program contains an "
    "exponent-repr float, a let-valued or defaulted alias bound, a subcircuit count != 1, a name used as index, "
    "or nesting depth >= 3; distinct = distinct canonical program text."
)
ASSUMPTIONS = [
    "the program is one the parser accepts (rejections are counted as outside the domain; acceptance is C02)",
    "finite numbers only; branch/case excluded (experimental feature, off by default)",
]

_NATIVE_NAMES = ["U1", "R1", "R2", "N1", "U2", "P2", "M2", "U3"]
_NATIVES = None


def natives():
    global _NATIVES
    if _NATIVES is None:
        _NATIVES = gates.make_gates(7, idle=True, names=_NATIVE_NAMES)
    return _NATIVES


def _nontrivial(feats, d):
    keys = {
        "num:exp-intmant",
        "num:exp-fracmant",
        "map-let-bound",
        "map-default-bound",
        "subcircuit-count",
        "name-as-index",
        "param-as-index",
    }
    return bool(feats & keys) or d >= 3


def _failed_generation():
    from jaqalpaq.core.circuitbuilder import CircuitBuilder

    cb = CircuitBuilder()
    r = cb.register("zq", 2)
    cb.let("zl", 4)
    cb.gate("zg", r[0], 0.25)
    cb.gate("zh", r[1], 1 + 2j)  # complex: not a Jaqal number
    try:
        generate(cb.build())
    except Exception:  # noqa: BLE001 - whatever it raises for a value outside Jaqal is not judged
        pass


def roundtrip(case, mode):
    prog = case["prog"]
    text = render.to_text(prog)
    kw = {}
    if mode == "native":
        kw["inject_pulses"] = natives()
    numpy_numbers = False
    if mode == "builder":
        from jaqalpaq.core.circuitbuilder import build

        sx = render.to_sexpr(prog)
        if len(text) % 4 == 1:
            # hand-made circuits get their numbers from computations: numpy floats are finite
            # numbers like any other (gate arguments and let values)
            import numpy

            numpy_numbers = True

            def conv(x, in_gate=False):
                if isinstance(x, list):
                    head = x[0] if x else None
                    return [conv(v, in_gate or head in ("gate", "let")) for v in x]
                if in_gate and isinstance(x, float):
                    return numpy.float64(x)
                return x

            sx = conv(sx)
        st_, c = guard(build, sx, what="build")
    else:
        st_, c = guard(parse, text, what="parse", **kw)
    if st_ == "err":
        raise Skip()
    try:
        ex = extract.Extractor(c)
        m1 = ex.meaning()
        d1 = ex.declarations()
    except extract.ExtractError:
        raise Skip()
    if len(text) % 7 == 0:
        # a generation that FAILS (a hand-made circuit with a value that has no Jaqal spelling)
        # must leave nothing behind for the next one
        _failed_generation()
    st_, t1 = guard(generate, c, what="generate")
    if st_ == "err":
        raise Violation("generate-raised", f"{t1}\n--- program:\n{text}", where=type(t1).__name__)
    if not isinstance(t1, str):
        raise Violation("generate-not-text", repr(t1))
    st_, c2 = guard(parse, t1, what="reparse", **kw)
    if st_ == "err":
        raise Violation("reparse-rejected", f"{c2}\n--- generated text:\n{t1}\n--- program:\n{text}")
    if not (c2 == c):
        raise Violation("unequal", f"re-parsed circuit != original\n--- generated:\n{t1}\n--- program:\n{text}")
    try:
        ex2 = extract.Extractor(c2)
        m2 = ex2.meaning()
        d2 = ex2.declarations()
    except extract.ExtractError as e:
        raise Violation("reparse-no-meaning", f"{e}\n--- generated:\n{t1}")
    if not same_meaning(m1, m2, strict=not numpy_numbers):
        raise Violation("meaning-changed", f"{show(m1)}\n!=\n{show(m2)}\n--- generated:\n{t1}\n--- program:\n{text}")
    if numpy_numbers:
        d1 = dict(d1, lets=[(n_, float(v_) if isinstance(v_, float) else v_) for n_, v_ in d1["lets"]])
    if repr(d1) != repr(d2):
        raise Violation("declarations-changed", f"{d1}\n!=\n{d2}\n--- generated:\n{t1}")
    st_, t2 = guard(generate, c2, what="generate2")
    if st_ == "err" or t2 != t1:
        raise Violation("not-a-fixpoint", f"second generation differs\n--- first:\n{t1}\n--- second:\n{t2}")
    feats = prog_features(prog)
    return {
        "nontrivial": _nontrivial(feats, depth(prog)),
        "classes": sorted(feats),
        "key": text,
        "sample": {"mode": mode, "text": text},
    }


def parts():
    anon = gen.progs(gen.Cfg(max_depth=6))
    nat = gen.progs(gen.Cfg(natives=gates.kinds_table(idle=True, names=_NATIVE_NAMES), reg_args=False, max_depth=5))
    return [
        Part("roundtrip-anon", anon, lambda c: roundtrip(c, "anon"), quick=3000, thorough=80000, min_nontrivial=0.2),
        Part("roundtrip-native", nat, lambda c: roundtrip(c, "native"), quick=1500, thorough=40000, min_nontrivial=0.2),
        Part("roundtrip-builder", anon, lambda c: roundtrip(c, "builder"), quick=1500, thorough=30000, min_nontrivial=0.2),
    ]
