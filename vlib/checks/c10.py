"""C10 — passes commute up to meaning, are idempotent, and keep circuits legal."""

from hypothesis import strategies as st

from ..common import Violation, Skip, guard, parse, generate, extract, render, same_meaning, show, Ref, Invalid, prog_features
from ..harness import Part
from .. import gen, gates
from ..model import walk

PROPERTY = "C10"
RULE = (
    "A program (macros calling macros, lets in integer positions, alias chains, subcircuits in loops) plus an "
    "override dictionary plus a HISTORY: a drawn sequence (length 1-8, repetitions allowed) over the passes "
    "expand_subcircuits, fill_in_let(ov), expand_macros, fill_in_map, applied one after the other to the parsed "
    "circuit.  fill_in_map is required to succeed only once let substitution has happened (or no override is "
    "given) and macros are expanded (or the program has none) - otherwise a JaqalError from it means 'not "
    "applicable' and the step is skipped; the other three must always succeed.  After EVERY step: the independently "
    "extracted meaning of the current circuit (remaining constants read through ov) equals the reference meaning "
    "M(prog, ov) (with subcircuits desugared once expand_subcircuits ran) - hence all orders agree; applying the "
    "same pass again gives an == circuit with identical generated text (idempotence); generate -> parse succeeds "
    "and has the same meaning (legality).  Separately every parser flag combination (expand_macro, expand_let, "
    "expand_let_map, override_dict) must equal the explicit composition on the plain parse (== and text), and "
    "parse_jaqal_file on a file holding the same text, with the same flags and overrides, must give an equal circuit. "
    "Non-trivial = history of >= 3 steps with >= 2 different passes on a program with >= 2 macro levels or a "
    "subcircuit inside a loop or macro. distinct = (text, overrides, history)."
    " map-parameters: template programs whose macros index the fundamental register by a parameter (named i, p, or like the alias or the let) or index a register parameter, with alias references around them (main body, loop, a parameterless macro): fill_in_map alone, after fill_in_let, through the flag expand_let_map and together with expand_macro must answer, keep the meaning, leave no alias reference in those statements and give text that parses back."
)
ASSUMPTIONS = [
    "'applicable' for fill_in_map is taken from its docstring and from its use in parse_jaqal_string (after fill_in_let; macros expanded)",
    "whole-register arguments to gates are not generated here (fill_in_map documents that it rejects them)",
]

_NATIVE_NAMES = ["U1", "R1", "R2", "N1", "U2", "P2", "M2", "U3"]
_NAT = None
PASSES = ["sub", "let", "mac", "map"]


def natives():
    global _NAT
    if _NAT is None:
        _NAT = gates.make_gates(7, idle=True, names=_NATIVE_NAMES)
    return _NAT


def cases(native=False):
    if native:
        cfg = gen.Cfg(natives=gates.kinds_table(idle=True, names=_NATIVE_NAMES), reg_args=False, general_numbers=False, max_depth=4, max_macros=4, macro_bias=1)
    else:
        cfg = gen.Cfg(reg_args=False, general_numbers=False, max_depth=4, max_macros=4, macro_bias=1)

    def mk(ch):
        prog, _b = gen.make_prog(ch, cfg)
        env = gen.overrides(ch, prog, cfg.natives) if ch.bool() else {}
        hist = [ch.pick(PASSES) for _ in range(ch.int(1, 8))]
        return {"prog": prog, "env": env, "history": hist}

    return gen.cases(mk)


def _apply(name, circ, env):
    from jaqalpaq.core.algorithm import expand_macros, fill_in_let, expand_subcircuits
    from jaqalpaq.core.algorithm.fill_in_map import fill_in_map

    if name == "sub":
        return guard(expand_subcircuits, circ, what="expand_subcircuits")
    if name == "let":
        return guard(fill_in_let, circ, dict(env) if env else None, what="fill_in_let")
    if name == "mac":
        return guard(expand_macros, circ, what="expand_macros")
    if name == "map":
        return guard(fill_in_map, circ, what="fill_in_map")
    raise ValueError(name)


def _structure(prog):
    feats = prog_features(prog)
    sub_in_loop_or_macro = False

    def rec(stmts, inside):
        nonlocal sub_in_loop_or_macro
        for s in stmts:
            if s[0] == "sub" and inside:
                sub_in_loop_or_macro = True
            if s[0] in ("seq", "par"):
                rec(s[1], inside)
            elif s[0] == "loop":
                rec([s[2]], True)
            elif s[0] == "sub":
                rec(s[2], inside)

    rec(prog["body"], False)
    for m in prog["macros"]:
        rec([m["body"]], True)
    return ("macro-calls-macro" in feats) or sub_in_loop_or_macro


def check(case, mode):
    prog, env, hist = case["prog"], case["env"], case["history"]
    text = render.to_text(prog)
    try:
        ref = Ref(prog, env)
        m_plain = ref.validate()
        m_desug = ref.meaning(desugar=True)
    except Invalid:
        raise Skip()
    kw = {"inject_pulses": natives()} if mode == "native" else {}
    st_, c = guard(parse, text, what="parse", **kw)
    if st_ == "err":
        raise Skip()
    frozen = gen.frozen_default_risk(prog, env)
    try:
        exc = extract.Extractor(c, env)
        m_c = exc.meaning()
        d_c, d_ref = exc.declarations(), ref.declarations()
    except extract.ExtractError as e:
        if frozen:
            raise Skip()
        raise Violation("parsed-circuit-unresolvable-under-override", f"{e}\n--- overrides {env}\n--- program:\n{text}")
    if not same_meaning(m_c, m_plain) or d_c["reg"] != d_ref["reg"] or [tuple(x) for x in d_c["maps"]] != [tuple(x) for x in d_ref["maps"]]:
        if frozen:
            raise Skip()  # text model and circuit differ under the override (see C05 note)
        raise Violation("parsed-circuit-disagrees-with-text-under-override", f"circuit {show(m_c)} {d_c}\nreference {show(m_plain)} {d_ref}\n--- overrides {env}\n--- program:\n{text}")
    cur = c
    done = set()
    applied = []
    early_refused = False
    has_macros = bool(prog["macros"])
    ctx = f"--- overrides {env}\n--- program:\n{text}"
    for step, name in enumerate(hist):
        early = name == "map" and not (("let" in done or not env) and ("mac" in done or not has_macros))
        if early and env and "let" not in done:
            continue  # not applicable yet: it would resolve through the DECLARED let values
        st_, nxt = _apply(name, cur, env)
        if early and st_ == "err":
            # alias fill-in before macro expansion may refuse (a macro body that indexes one of
            # its parameters cannot be resolved yet) - but if it answers, the answer must be right
            early_refused = True
            continue
        if st_ == "err":
            raise Violation("pass-rejected-valid-circuit", f"{name} after {applied}: {nxt}\n{ctx}", where=name)
        applied.append(name)
        done.add(name)
        cur = nxt
        expected = m_desug if "sub" in done else m_plain
        try:
            got = extract.meaning(cur, env)
        except extract.ExtractError as e:
            raise Violation("result-unresolvable", f"after {applied}: {e}\n{ctx}", where=name)
        if not same_meaning(expected, got):
            raise Violation("meaning-changed", f"after {applied}:\nexpected {show(expected)}\ngot      {show(got)}\n{ctx}", where=name)
        if not (cur.usepulses == c.usepulses):
            raise Violation("usepulses-lost", f"after {applied}: {cur.usepulses} != {c.usepulses}\n{ctx}", where=name)
        # macro calls are linked to definitions: every link leads into the result's own table
        from jaqalpaq.core.macro import Macro as _Macro
        from jaqalpaq.core.gate import GateStatement as _GS

        for g_ in extract.find_objects(cur, lambda x: isinstance(x, _GS) and isinstance(x.gate_def, _Macro)):
            if cur.macros.get(g_.name) is not g_.gate_def:
                raise Violation("stale-macro-link", f"after {applied}: a call of {g_.name} is linked to a definition that is not the result's macro {g_.name}\n{ctx}", where=name)
        # idempotence
        st_, again = _apply(name, cur, env)
        if st_ == "err":
            raise Violation("second-application-rejected", f"{name} twice after {applied}: {again}\n{ctx}", where=name)
        st1, t1 = guard(generate, cur, what="generate")
        st2, t2 = guard(generate, again, what="generate")
        if not (again == cur) or (st1 == "ok" and st2 == "ok" and t1 != t2):
            raise Violation("not-idempotent", f"{name} applied twice after {applied} differs\n--- once:\n{t1}\n--- twice:\n{t2}\n{ctx}", where=name)
        # legality
        if st1 == "err":
            raise Violation("result-not-generatable", f"after {applied}: {t1}\n{ctx}", where=name)
        st_, back = guard(parse, t1, what="reparse", **kw)
        if st_ == "err":
            raise Violation("result-not-legal-jaqal", f"after {applied}: {back}\n--- generated:\n{t1}\n{ctx}", where=name)
        try:
            got2 = extract.meaning(back, env)
        except extract.ExtractError as e:
            raise Violation("reparsed-unresolvable", f"after {applied}: {e}\n--- generated:\n{t1}\n{ctx}", where=name)
        if not same_meaning(expected, got2):
            raise Violation("reparsed-meaning-changed", f"after {applied}:\nexpected {show(expected)}\ngot      {show(got2)}\n--- generated:\n{t1}\n{ctx}", where=name)
    nt = len(applied) >= 3 and len(set(applied)) >= 2 and _structure(prog)
    classes = ["len:%d" % min(len(applied), 8), "distinct-passes:%d" % len(set(applied))]
    if env:
        classes.append("has-override")
    if "map" in done:
        classes.append("map-applied")
        if has_macros and "mac" not in done or (applied.index("map") < applied.index("mac") if "mac" in applied else False):
            classes.append("map-before-macro-expansion")
    if early_refused:
        classes.append("map-refused-before-macro-expansion")
    return {"nontrivial": nt, "classes": classes, "key": mode + text + repr(sorted(env.items())) + repr(hist), "sample": {"mode": mode, "text": text, "overrides": env, "history": hist}}


def flag_cases():
    cfg = gen.Cfg(reg_args=False, general_numbers=False, max_depth=4, max_macros=3, macro_bias=1)

    def mk(ch):
        prog, _b = gen.make_prog(ch, cfg)
        env = gen.overrides(ch, prog) if ch.bool() else {}
        return {"prog": prog, "env": env, "expand_macro": ch.bool(), "expand_let": ch.bool(), "expand_let_map": ch.bool()}

    return gen.cases(mk)


def flags(case):
    from jaqalpaq.core.algorithm import expand_macros, fill_in_let
    from jaqalpaq.core.algorithm.fill_in_map import fill_in_map

    prog, env = case["prog"], case["env"]
    text = render.to_text(prog)
    try:
        Ref(prog, env).validate()
    except Invalid:
        raise Skip()
    st_, c = guard(parse, text, what="parse")
    if st_ == "err":
        raise Skip()
    fl = {k: case[k] for k in ("expand_macro", "expand_let", "expand_let_map")}
    ov = dict(env) if env else None
    # explicit composition, as documented for the flags
    st_e, e = ("ok", c)
    if fl["expand_macro"]:
        st_e, e = guard(expand_macros, e, preserve_definitions=True, what="expand_macros")
    if st_e == "ok" and (fl["expand_let"] or fl["expand_let_map"]):
        st_e, e = guard(fill_in_let, e, ov, what="fill_in_let")
    if st_e == "ok" and fl["expand_let_map"]:
        st_e, e = guard(fill_in_map, e, what="fill_in_map")
    st_p, p = guard(parse, text, override_dict=ov, what="parse(flags)", **fl)
    ctx = f"flags {fl}\n--- overrides {env}\n--- program:\n{text}"
    if st_e != st_p:
        raise Violation("flag-vs-explicit-outcome", f"explicit: {st_e} {e if st_e=='err' else ''}; flags: {st_p} {p if st_p=='err' else ''}\n{ctx}")
    if st_e == "ok":
        if not (p == e) or not (e == p):
            raise Violation("flag-vs-explicit-unequal", ctx)
        s1, t1 = guard(generate, p, what="generate")
        s2, t2 = guard(generate, e, what="generate")
        if s1 != s2 or (s1 == "ok" and t1 != t2):
            raise Violation("flag-vs-explicit-text", f"{t1}\n!=\n{t2}\n{ctx}")
    # the file entry point takes the same flags and overrides: same outcome, equal circuit
    import os
    import tempfile
    from jaqalpaq.parser import parse_jaqal_file

    with tempfile.TemporaryDirectory(prefix="c10_") as d:
        fname = os.path.join(d, "prog.jaqal")
        with open(fname, "w") as fh:
            fh.write(text)
        st_f, pf = guard(parse_jaqal_file, fname, override_dict=dict(env) if env else None, autoload_pulses=False, what="parse_jaqal_file(flags)", **fl)
    if st_f != st_p:
        raise Violation("file-vs-string-outcome", f"string: {st_p} {p if st_p=='err' else ''}; file: {st_f} {pf if st_f=='err' else ''}\n{ctx}")
    if st_f == "ok" and (not (pf == p) or not (p == pf)):
        raise Violation("file-vs-string-unequal", f"parse_jaqal_file(...) != parse_jaqal_string(...) with the same flags and overrides\n{ctx}")
    nt = sum(fl.values()) >= 2 or (bool(env) and any(fl.values()))
    return {"nontrivial": nt, "classes": ["flags:" + "".join("1" if fl[k] else "0" for k in sorted(fl)), "outcome:" + st_p], "key": text + repr(fl) + repr(sorted(env.items()))}


def _mapparam_case(ch):
    n = ch.int(2, 5)
    start = ch.int(0, n - 1)
    step = ch.int(1, 2)
    length = len(range(start, n, step))
    return {
        "n": n, "start": start, "step": step,
        "call_index": ch.int(0, n - 1), "body_index": ch.int(0, n - 1), "alias_index": ch.int(0, length - 1),
        "let_index": ch.bool(), "alias_in_macro": ch.bool(), "param_name": ch.pick(["i", "p", "a", "n"]),
    }


def map_parameters(case):
    """Alias fill-in with macros whose bodies index the FUNDAMENTAL register by a parameter
    (`X q[i]`) or index a parameter (`Y p[0]`): no alias is involved there, so the pass - alone,
    through the parser flag, and together with expand_macro (which keeps the definitions) -
    answers, rewrites the alias references around them and keeps the meaning."""
    from jaqalpaq.core.algorithm.fill_in_map import fill_in_map
    from jaqalpaq.core.algorithm import fill_in_let
    from jaqalpaq.parser import parse_jaqal_string

    n, start, step = case["n"], case["start"], case["step"]
    if not (2 <= n <= 8 and 0 <= start < n and step >= 1):
        raise Skip()
    length = len(range(start, n, step))
    ci, bi, ai = case["call_index"], case["body_index"], case["alias_index"]
    if not (0 <= ci < n and 0 <= bi < n and 0 <= ai < length):
        raise Skip()
    pn = case["param_name"]
    if pn not in ("i", "p", "a", "n"):
        raise Skip()
    # the parameter may be named like the alias or the let (it shadows them inside the body)
    lines = [f"let n {bi}", f"register q[{n}]", f"map a q[{start}:{n}:{step}]"]
    lines.append(f"macro m {pn} {{ X q[{pn}] }}")
    lines.append("macro w r { Y r[%s] }" % ("n" if case["let_index"] else bi))
    if case["alias_in_macro"]:
        lines.append(f"macro u {{ Z a[{ai}] }}")
    lines += [f"m {ci}", "w q", f"H a[{ai}]", "loop 2 { m %d ; H a[0] }" % bi]
    if case["alias_in_macro"]:
        lines.append("u")
    text = "\n".join(lines) + "\n"
    c = parse(text)
    want = extract.meaning(c, {})
    routes = {
        "fill_in_map(fill_in_let)": lambda: fill_in_map(fill_in_let(c)),
        "fill_in_map": lambda: fill_in_map(c),
        "flag expand_let_map": lambda: parse_jaqal_string(text, autoload_pulses=False, expand_let_map=True),
        "flags expand_let_map+expand_macro": lambda: parse_jaqal_string(text, autoload_pulses=False, expand_let_map=True, expand_macro=True),
    }
    for name, fn in routes.items():
        st_, r = guard(fn, what=name)
        if st_ == "err":
            raise Violation("pass-rejected-valid-circuit", f"{name}: {r}\n--- program:\n{text}", where=name)
        try:
            got = extract.meaning(r, {})
        except extract.ExtractError as e:
            raise Violation("result-unresolvable", f"{name}: {e}\n--- program:\n{text}", where=name)
        if not same_meaning(want, got):
            raise Violation("meaning-changed", f"{name}:\nexpected {show(want)}\ngot      {show(got)}\n--- program:\n{text}\n--- result:\n{generate(r)}", where=name)
        out = generate(r)
        body = out.split("\n\n")
        if any(("a[" in ln) for ln in out.splitlines() if ln.lstrip().startswith(("H ", "Z "))):
            raise Violation("alias-reference-left", f"{name}\n--- program:\n{text}\n--- result:\n{out}", where=name)
        st2, r2 = guard(parse, out, what="re-parse of the result")
        if st2 == "err":
            raise Violation("result-not-legal-jaqal", f"{name}: {r2}\n--- result:\n{out}", where=name)
    return {"nontrivial": True, "classes": ["param-name:" + pn, "let-index:%s" % case["let_index"], "alias-in-macro:%s" % case["alias_in_macro"]], "key": text, "sample": {"text": text}}


def parts():
    return [
        Part("histories-anon", cases(False), lambda c: check(c, "anon"), quick=1500, thorough=50000, min_nontrivial=0.05),
        Part("histories-native", cases(True), lambda c: check(c, "native"), quick=800, thorough=25000, min_nontrivial=0.05),
        Part("parser-flags", flag_cases(), flags, quick=1200, thorough=30000, min_nontrivial=0.2),
        Part("map-parameters", gen.cases(_mapparam_case), map_parameters, quick=500, thorough=6000, min_nontrivial=0.2),
    ]
