"""C19 — unit-timing normalisation preserves the lock-step schedule."""

from ..common import Violation, Skip, guard, parse, render, same_meaning
from ..harness import Part
from .. import gen
from ..model import empty_prog, norm
from .. import refexec

PROPERTY = "C19"
RULE = (
    "Programs with alternating sequential/parallel nesting to depth 6, branches of unequal length, empty blocks, "
    "subcircuit blocks (with counts), top-level and in-sequence loops (never under a parallel block in the positive "
    "cases), lets/aliases/pulse imports in the header; every gate instance carries an integer tag, unique in 4 of 5 "
    "cases and otherwise a textual twin of an earlier gate.  Oracle: "
    "under the unit-time model (gate = 1 step, sequence = sum, parallel = common start and max duration, loops "
    "are atoms of one step) the multiset of (tag, time step) - and of (loop count, loop body meaning, time step) - "
    "is the same for normalize_blocks_with_unitary_timing(c) as for c; the output body is flat (each element a "
    "gate, a parallel group of gates, a loop, or a subcircuit-annotated container whose inside is flat); "
    "constants, registers, macros, native gates, pulse imports and subcircuit annotations/counts equal the "
    "input's.  One case in four is built from its S-expression through circuitbuilder.build instead of parsed.  "
    "Negative cases: a loop placed somewhere under a parallel block - in builder-made cases also as a branch of the "
    "parallel block itself, which the text grammar cannot write - must raise JaqalError.  Non-trivial = "
    "depth >= 3 with two parallel branches of different length. distinct = program text."
)
ASSUMPTIONS = ["macro calls are atoms for this pass (its docstring: 'does not expand loops, macros, lets, or maps')"]


def _gen_items(ch, ctx, depth, tag, allow_loop, in_sub, under_par, bad, direct=False):
    """ctx in top/seq/par.  direct: a loop may be a branch of a parallel block itself (the text
    grammar has no such branch; the builder API accepts it)."""
    out = []
    for _ in range(ch.int(0, 4)):
        kinds = ["gate", "gate"]
        if depth > 0:
            if ctx == "par" and direct and bad:
                kinds.append("loop")
            if ctx in ("top", "seq"):
                kinds += ["par", "par"]
                if allow_loop:
                    kinds.append("loop")
                if not in_sub and not under_par:
                    kinds.append("sub")
            if ctx in ("top", "par"):
                kinds += ["seq", "seq"]
        k = ch.pick(kinds)
        if k == "gate":
            tag[0] += 1
            # mostly unique tags; sometimes a textually identical twin of an earlier gate (the
            # schedule is compared as a multiset, so identical instances are fine)
            t = tag[0] if ch.int(0, 4) else ch.int(1, max(1, tag[0]))
            out.append(["g", ch.pick(["g", "h", "g", "h", "I_g", "I_h"]) if t == tag[0] else "g", [["n", t]]])
        elif k == "par":
            out.append(["par", _gen_items(ch, "par", depth - 1, tag, allow_loop and bad, in_sub, True, bad, direct)])
        elif k == "seq":
            out.append(["seq", _gen_items(ch, "seq", depth - 1, tag, allow_loop and (not under_par or bad), in_sub, under_par, bad, direct)])
        elif k == "loop":
            body_kind = ch.pick(["seq", "seq", "par"])
            out.append(["loop", ch.int(0, 3), [body_kind, _gen_items(ch, body_kind, min(depth - 1, 2), tag, not under_par and body_kind == "seq", in_sub, under_par or body_kind == "par", False)]])
        elif k == "sub":
            out.append(["sub", ch.pick([None, None, 2, 7]), _gen_items(ch, "seq", depth - 1, tag, allow_loop, True, under_par, bad, direct)])
    return out


def _has_loop_under_par(stmts, under=False):
    for s in stmts:
        if s[0] == "loop":
            if under:
                return True
            # loops are atoms: their bodies are not normalised
        elif s[0] == "par":
            if _has_loop_under_par(s[1], True):
                return True
        elif s[0] == "seq":
            if _has_loop_under_par(s[1], under):
                return True
        elif s[0] == "sub":
            if _has_loop_under_par(s[2], under):
                return True
    return False


def _case(ch):
    b = gen.Builder(ch, gen.Cfg(max_lets=2, max_maps=2, general_numbers=False))
    prog = empty_prog()
    b.header(prog)
    bad = ch.int(0, 5) == 0
    # one case in four is built from its S-expression through circuitbuilder.build instead of from
    # text; there a loop may also sit DIRECTLY in a parallel block (negative cases only)
    via = "builder" if ch.int(0, 3) == 0 else "text"
    prog["body"] = _gen_items(ch, "top", 6 if ch.bool() else 3, [0], True, False, False, bad, via == "builder")
    # with a native gate set the I_ gates are real IdleGateDefinition instances (they take a time
    # step like any gate), without one they are anonymous gates that merely have such names
    return {"prog": prog, "native": ch.bool(), "via": via}


def _natives():
    from jaqalpaq.core import GateDefinition, Parameter, ParamType
    from jaqalpaq.core.gatedef import add_idle_gates

    return add_idle_gates({n: GateDefinition(n, [Parameter("t", ParamType.FLOAT)]) for n in ("g", "h")})


def _tree_of_model(stmts):
    out = []
    for s in stmts:
        if s[0] == "g":
            out.append(("g", s[1], tuple(("num", a[1]) for a in s[2]), None))
        elif s[0] in ("seq", "par"):
            out.append((s[0], tuple(_tree_of_model(s[1])), None))
        elif s[0] == "loop":
            out.append(("loop", s[1], (s[2][0], tuple(_tree_of_model(s[2][1])), None), None))
        elif s[0] == "sub":
            out.append(("sub", 1 if s[1] is None else s[1], tuple(_tree_of_model(s[2])), None))
    return out


def _tree_of_circuit(stmts):
    from jaqalpaq.core.block import BlockStatement, LoopStatement
    from jaqalpaq.core.gate import GateStatement

    out = []
    for s in stmts:
        if isinstance(s, GateStatement):
            out.append(("g", s.name, tuple(("num", v) for v in s.parameters.values()), None))
        elif isinstance(s, LoopStatement):
            b = s.statements
            out.append(("loop", s.iterations, ("par" if b.parallel else "seq", tuple(_tree_of_circuit(b.statements)), None), None))
        elif isinstance(s, BlockStatement):
            if s.subcircuit:
                out.append(("sub", s.iterations, tuple(_tree_of_circuit(s.statements)), None))
            else:
                out.append(("par" if s.parallel else "seq", tuple(_tree_of_circuit(s.statements)), None))
        else:
            raise Violation("unknown-statement", repr(s))
    return out


def _events(tree):
    _dur, ev = refexec.schedule(("seq", tuple(tree), None))
    gates_, loops, subs = [], [], []
    for t, atom in ev:
        if atom[0] == "g":
            gates_.append((atom[2][0][1], atom[1], t))
        else:
            loops.append((t, atom[1], norm(_strip(atom[2]))))
    return sorted(gates_), loops


def _strip(node):
    tag = node[0]
    if tag == "g":
        return ("g", node[1], node[2])
    if tag == "loop":
        return ("loop", node[1], _strip(node[2]))
    if tag == "sub":
        return ("sub", node[1], tuple(_strip(k) for k in node[2]))
    return (tag, tuple(_strip(k) for k in node[1]))


def _sub_annotations(tree, t0=0):
    """[(start time, count, number of gates inside)] of subcircuit containers, in order."""
    out = []

    def rec(node, t):
        tag = node[0]
        if tag in ("g", "loop"):
            return 1
        kids = node[2] if tag == "sub" else node[1]
        if tag == "par":
            return max([rec(k, t) for k in kids] or [0])
        start = t
        for k in kids:
            t += rec(k, t)
        if tag == "sub":
            out.append((start, node[1], t - start))
        return t - start

    rec(("seq", tuple(tree), None), t0)
    return sorted(out)


def _flat_ok(stmts, inside_sub=False):
    from jaqalpaq.core.block import BlockStatement, LoopStatement
    from jaqalpaq.core.gate import GateStatement

    for s in stmts:
        if isinstance(s, (GateStatement, LoopStatement)):
            continue
        if isinstance(s, BlockStatement):
            if s.subcircuit:
                if inside_sub or not _flat_ok(s.statements, True):
                    return False
            elif s.parallel:
                if not all(isinstance(x, GateStatement) for x in s.statements):
                    return False
            else:
                return False
        else:
            return False
    return True


def check(case):
    from jaqalpaq.core.algorithm import normalize_blocks_with_unitary_timing

    prog = case["prog"]
    text = render.to_text(prog)
    kw = {"inject_pulses": _natives()} if case.get("native") else {}
    if case.get("via") == "builder":
        from jaqalpaq.core.circuitbuilder import build

        text = "(built from the S-expression of)\n" + text
        st_, c = guard(build, render.to_sexpr(prog), what="build(sexpr)", **kw)
    else:
        st_, c = guard(parse, text, what="parse", **kw)
    if st_ == "err":
        raise Skip()
    negative = _has_loop_under_par(prog["body"])
    st_, r = guard(normalize_blocks_with_unitary_timing, c, what="normalize_blocks_with_unitary_timing")
    if negative:
        if st_ == "ok":
            raise Violation("loop-under-parallel-accepted", f"--- program:\n{text}")
        classes = ["negative:loop-under-parallel"] + (["negative:loop-is-a-parallel-branch"] if _loop_is_branch(prog["body"]) else [])
        return {"nontrivial": True, "classes": classes, "key": text, "sample": {"text": text, "expected": "JaqalError"}}
    if st_ == "err":
        raise Violation("rejected-valid-program", f"{r}\n--- program:\n{text}")
    t_in = _tree_of_model(prog["body"])
    t_out = _tree_of_circuit(r.body.statements)
    g_in, l_in = _events(t_in)
    g_out, l_out = _events(t_out)
    if g_in != g_out:
        from collections import Counter

        cin, cout = Counter((x[0], x[1]) for x in g_in), Counter((x[0], x[1]) for x in g_out)
        kind = "gate-lost" if cin - cout else "gate-duplicated" if cout - cin else "gate-time-step-changed"
        raise Violation(kind, f"(tag, gate, step) input {g_in}\noutput {g_out}\n--- program:\n{text}")
    if len(l_in) != len(l_out) or any(a[0] != b[0] or a[1] != b[1] or not same_meaning(a[2], b[2]) for a, b in zip(sorted(l_in, key=lambda x: x[0]), sorted(l_out, key=lambda x: x[0]))):
        raise Violation("loop-schedule-changed", f"input {l_in}\noutput {l_out}\n--- program:\n{text}")
    if _sub_annotations(t_in) != _sub_annotations(t_out):
        raise Violation("subcircuit-annotation-lost", f"(start, count, duration) input {_sub_annotations(t_in)} output {_sub_annotations(t_out)}\n--- program:\n{text}")
    if not _flat_ok(r.body.statements):
        raise Violation("output-not-flat", f"{r.body}\n--- program:\n{text}")
    if not (r.constants == c.constants and r.registers == c.registers and r.macros == c.macros and r.native_gates == c.native_gates):
        raise Violation("header-changed", f"--- program:\n{text}")
    if not (r.usepulses == c.usepulses):
        raise Violation("header-usepulses", f"{r.usepulses} != {c.usepulses}\n--- program:\n{text}")
    from ..model import depth_of

    d = depth_of(prog["body"])
    uneven = _uneven(prog["body"])
    classes = ["depth:%d" % min(d, 6), "via:" + case.get("via", "text")] + (["native-idle-definitions"] if case.get("native") else []) + (["uneven-branches"] if uneven else []) + (["subcircuit"] if _sub_annotations(t_in) else []) + (["loops"] if l_in else [])
    return {"nontrivial": d >= 3 and uneven, "classes": classes, "key": text, "sample": {"text": text}}


def _loop_is_branch(stmts, in_par=False):
    for s in stmts:
        if s[0] == "loop" and in_par:
            return True
        if s[0] in ("seq", "par") and _loop_is_branch(s[1], s[0] == "par"):
            return True
        if s[0] == "sub" and _loop_is_branch(s[2]):
            return True
    return False


def _uneven(stmts):
    for s in stmts:
        if s[0] == "par" and len(s[1]) >= 2:
            durs = set()
            for k in s[1]:
                d, _ = refexec.schedule(("seq", tuple(_tree_of_model([k])), None))
                durs.add(d)
            if len(durs) > 1:
                return True
        if s[0] in ("seq", "par") and _uneven(s[1]):
            return True
        if s[0] == "sub" and _uneven(s[2]):
            return True
    return False


def parts():
    return [Part("schedule", gen.cases(_case), check, quick=5000, thorough=120000, min_nontrivial=0.1)]
