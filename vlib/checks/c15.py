"""C15 — result views are normalised and mutually consistent (little-endian)."""

import numpy as np

from ..common import Violation, Skip, guard, parse, render, Ref, Invalid
from ..harness import Part, step_budget
from .. import gen, gates, gen_emul, refexec

PROPERTY = "C15"
RULE = (
    "views: executable programs on 1-5 (thorough 1-7) qubits are run through the emulator and, with a drawn output "
    "list, through parse_jaqal_output_list twice - every outcome once as int and once as bit string; for every "
    "subcircuit: probabilities >= 0 and |sum-1| <= 1e-9; each *_by_str view has exactly 2^n keys, in integer order, "
    "key k = n characters with character i = bit i of k (qubit 0 leftmost, least significant), values equal to "
    "*_by_int[k]; every Readout has as_str of length n with as_str[i] == bit i of as_int; results for string and "
    "int outputs are identical; relative_frequency_by_int[k] = number of recorded readouts with as_int == k; the "
    "same through the job interface (backend(circuit) -> job): on job.subcircuits before anything ran, after "
    "job.execute() and after a second job.execute(); in half of the reads the string-keyed views are asked for "
    "before the integer-indexed ones.  "
    "all-outcomes: for every register size n <= 10 (thorough <= 12) ALL 2^n outcomes are fed through "
    "parse_jaqal_output_list as ints and as strings and (n <= 6) through an emulated basis-state preparation (X on "
    "the set bits) - exhaustive over outcomes.  renormalise: programs whose gates are scaled by 1 + e, "
    "|e| <= 4e-7 (inside the documented clip-and-renormalise tolerance) must still report probabilities >= 0 that "
    "sum to one within 1e-10.  long-runs: one subcircuit visited 127..70003 times (the boundaries of the 8-, 15- and "
    "16-bit integer types +-2; flat loop, nested loops, or a subcircuit block whose repetition count is an "
    "annotation), (nearly) all readouts showing one outcome, through parse_jaqal_output_list and (sometimes) the "
    "emulator: one readout per visit, all views consistent, frequencies equal to a recount of the readouts (no "
    "counter wraps or saturates).  Non-trivial = n >= 2 and some outcome whose bit string is not a palindrome. "
    "distinct = (text, outputs)."
    " The outcomes' low bits are also supplied as booleans (bool and numpy.bool_ mixed): same readouts and counts as the same values supplied as ints."
)
ASSUMPTIONS = ["the int <-> string convention is the one documented in core/result.py: qubit 0 = least significant bit = leftmost character"]


def bits(k, n):
    return "".join(str((k >> i) & 1) for i in range(n))


def _check_views(res, n, ctx, who, str_first=False):
    for sc in res.subcircuits:
        views = []
        pre = {}
        if str_first:
            # the string-keyed views are read BEFORE the integer-indexed ones: neither may depend
            # on the other having been asked for
            for name in ("simulated_probability", "relative_frequency", "probability"):
                if hasattr(sc, name + "_by_str"):
                    pre[name] = getattr(sc, name + "_by_str")
        if hasattr(sc, "simulated_probability_by_int"):
            p = np.asarray(sc.simulated_probability_by_int, dtype=float)
            if p.shape != (2**n,):
                raise Violation("distribution-shape", f"[{who}] {p.shape}\n{ctx}", where=who)
            if (p < 0).any() or abs(p.sum() - 1) > 1e-9:
                raise Violation("not-normalised", f"[{who}] min {p.min()} sum {p.sum()}\n{ctx}", where=who)
            views.append(("simulated_probability", p, pre["simulated_probability"] if "simulated_probability" in pre else sc.simulated_probability_by_str))
        if hasattr(sc, "relative_frequency_by_int"):
            views.append(("relative_frequency", np.asarray(sc.relative_frequency_by_int, dtype=float), pre["relative_frequency"] if "relative_frequency" in pre else sc.relative_frequency_by_str))
        views.append(("probability", np.asarray(sc.probability_by_int, dtype=float), pre["probability"] if "probability" in pre else sc.probability_by_str))
        # the deprecated name is documented as the simulated probabilities where there are some,
        # else the relative frequencies
        twin = sc.simulated_probability_by_int if hasattr(sc, "simulated_probability_by_int") else sc.relative_frequency_by_int
        if not np.array_equal(np.asarray(sc.probability_by_int, dtype=float), np.asarray(twin, dtype=float)):
            raise Violation("deprecated-view-differs", f"[{who}] probability_by_int {list(sc.probability_by_int)} is not {list(twin)}\n{ctx}", where=who)
        for name, by_int, by_str in views:
            keys = list(by_str.keys())
            want = [bits(k, n) for k in range(2**n)]
            if keys != want:
                raise Violation("by-str-keys", f"[{who}] {name}_by_str keys {keys[:8]}... expected {want[:8]}...\n{ctx}", where=name)
            vals = np.asarray(list(by_str.values()), dtype=float)
            if vals.shape != by_int.shape or not np.array_equal(vals, by_int):
                raise Violation("by-str-values", f"[{who}] {name}: by_str values differ from by_int\n{ctx}", where=name)
        if hasattr(sc, "readouts"):
            cnt = np.zeros(2**n)
            for r in sc.readouts:
                cnt[r.as_int] += 1
            if not np.array_equal(np.asarray(sc.relative_frequency_by_int, dtype=float), cnt):
                raise Violation("frequencies-not-counts", f"[{who}] subcircuit {sc.index}\n{ctx}", where=who)
    for r in res.readouts or []:
        s = r.as_str
        if not isinstance(s, str) or len(s) != n or s != bits(r.as_int, n):
            raise Violation("readout-as-str", f"[{who}] as_int={r.as_int} as_str={s!r} expected {bits(r.as_int, n)!r}\n{ctx}", where=who)


def views(case):
    from jaqalpaq.core.result import parse_jaqal_output_list
    from jaqalpaq.emulator import run_jaqal_circuit
    from .c03 import ref_states

    prog, gate_seed = case["prog"], case["gate_seed"]
    try:
        r = ref_states(prog, {}, gate_seed)
    except Invalid:
        raise Skip()
    if r is None:
        raise Skip()
    n, nsub, visits, tree = r
    if any(isinstance(s, str) for _i, s in visits) or refexec.unrolled_size(tree) > 2000 or len(visits) > 300:
        raise Skip()
    text = render.to_text(prog)
    nat = gates.make_gates(gate_seed)
    st_, c = guard(parse, text, inject_pulses=nat, what="parse")
    if st_ == "err":
        raise Skip()
    ctx = f"--- program:\n{text}"
    np.random.seed(case["np_seed"])
    st_, res = guard(run_jaqal_circuit, c, what="run_jaqal_circuit")
    if st_ == "err":
        raise Skip()
    _check_views(res, n, ctx, "emulator")
    # The job interface (backend(circuit) -> job, job.execute() -> result; what run_jaqal_circuit
    # does inside): the views hold at every moment - on the job's subcircuits before anything ran
    # (all counts zero, string views read first), after a run, and after a second run of the job
    import types
    from jaqalpaq.core.algorithm import expand_macros, fill_in_let, expand_subcircuits
    from jaqalpaq.emulator.unitary import UnitarySerializedEmulator

    st_, job = guard(lambda: UnitarySerializedEmulator()(expand_macros(fill_in_let(expand_subcircuits(c)))), what="backend(circuit)")
    if st_ == "ok":
        str_first = case["np_seed"] % 2 == 0
        _check_views(types.SimpleNamespace(subcircuits=job.subcircuits, readouts=[]), n, ctx, "job-before-execute", str_first=str_first)
        for run in ("job-first-run", "job-second-run"):
            st_, rj = guard(job.execute, what="job.execute()")
            if st_ == "err":
                raise Violation("job-execute-raised", f"[{run}] {rj}\n{ctx}", where=run)
            _check_views(rj, n, ctx, run, str_first=not str_first)
    # readouts are values of their own: they stay usable after the result object is gone
    import gc

    kept = list(res.readouts)
    want_kept = [(x.index, x.subcircuit.index, int(x.as_int), x.as_str) for x in kept]
    had_readouts = bool(kept)
    del res
    gc.collect()
    try:
        got_kept = [(x.index, x.subcircuit.index, int(x.as_int), x.as_str) for x in kept]
    except Exception as e:  # noqa: BLE001 - whatever it is, the readouts stopped working
        raise Violation("readouts-die-with-result", f"after the ExecutionResult was dropped: {type(e).__name__}: {e}\n{ctx}")
    if got_kept != want_kept:
        raise Violation("readouts-die-with-result", f"{got_kept}\nexpected {want_kept}\n{ctx}")
    ch = gen.Chooser(case["outs_seed"])
    outs = [ch.int(0, 2**n - 1) for _ in visits]
    st_, ri = guard(parse_jaqal_output_list, c, list(outs), what="parse_jaqal_output_list(ints)")
    st2, rs = guard(parse_jaqal_output_list, c, [bits(k, n) for k in outs], what="parse_jaqal_output_list(strings)")
    if st_ == "err" or st2 == "err":
        raise Skip()
    _check_views(ri, n, ctx, "output-ints", str_first=case["outs_seed"] % 2 == 0)
    _check_views(rs, n, ctx, "output-strings", str_first=case["outs_seed"] % 2 == 1)
    # integer outcomes arrive in many integer TYPES (numpy scalars and arrays - the emulator's own
    # as_int values are numpy ints -, tuples): all of them are ints
    forms = {
        "numpy-scalars": [np.int64(k) if i % 2 else np.int32(k) for i, k in enumerate(outs)],
        "numpy-array": np.array(outs, dtype=np.int64 if len(outs) % 2 else np.uint16),
        "tuple": tuple(outs),
    }
    form = sorted(forms)[case["outs_seed"] % 3]
    if outs:
        st3, rn = guard(parse_jaqal_output_list, c, forms[form], what=f"parse_jaqal_output_list({form})")
        if st3 == "err":
            raise Violation("output-list-rejected", f"[{form}] {rn}\nsupplied {outs}\n{ctx}", where=form)
        _check_views(rn, n, ctx, "output-" + form)
        if [int(x.as_int) for x in rn.readouts] != outs:
            raise Violation("int-vs-string-outputs", f"[{form}] read {[int(x.as_int) for x in rn.readouts]}, supplied {outs}\n{ctx}", where=form)
    if outs:
        # the outcomes 0 and 1 delivered as booleans (Python bool is an int; numpy.bool_ comes out
        # of comparisons such as counts > threshold): the same readouts, the same counts
        low = [k & 1 for k in outs]
        st4, rb = guard(parse_jaqal_output_list, c, [bool(k) if i % 2 else np.bool_(k) for i, k in enumerate(low)], what="parse_jaqal_output_list(bools)")
        st5, rl = guard(parse_jaqal_output_list, c, list(low), what="parse_jaqal_output_list(ints)")
        if st5 == "ok":
            if st4 == "err":
                raise Violation("output-list-rejected", f"[bools] {rb}\nsupplied {low}\n{ctx}", where="bools")
            _check_views(rb, n, ctx, "output-bools")
            if [int(x.as_int) for x in rb.readouts] != low:
                raise Violation("int-vs-string-outputs", f"[bools] read {[int(x.as_int) for x in rb.readouts]}, supplied {low}\n{ctx}", where="bools")
            for x, y in zip(rb.subcircuits, rl.subcircuits):
                if not np.array_equal(np.asarray(x.relative_frequency_by_int), np.asarray(y.relative_frequency_by_int)):
                    raise Violation("int-vs-string-outputs", f"[bools] frequencies of subcircuit {x.index}: {list(x.relative_frequency_by_int)} for booleans, {list(y.relative_frequency_by_int)} for the same outcomes as ints\n{ctx}", where="bools")
    a = [(x.index, x.subcircuit.index, x.as_int, x.as_str) for x in ri.readouts]
    b = [(x.index, x.subcircuit.index, x.as_int, x.as_str) for x in rs.readouts]
    if a != b or [x[2] for x in a] != outs:
        raise Violation("int-vs-string-outputs", f"ints {a}\nstrings {b}\nsupplied {outs}\n{ctx}")
    for x, y in zip(ri.subcircuits, rs.subcircuits):
        if not np.array_equal(np.asarray(x.relative_frequency_by_int), np.asarray(y.relative_frequency_by_int)):
            raise Violation("int-vs-string-outputs", f"frequencies of subcircuit {x.index}\n{ctx}")
    nonpal = any(bits(k, n) != bits(k, n)[::-1] for k in outs) or any(bits(x[2], n) != bits(x[2], n)[::-1] for x in want_kept)
    return {"nontrivial": n >= 2 and nonpal, "classes": ["qubits:%d" % n, "visits:%s" % min(len(visits), 5)], "key": text + repr(outs), "sample": {"text": text, "outputs": outs}}


def view_cases(max_reg):
    def mk(ch):
        c = gen_emul.make_emulable(ch, max_reg=max_reg, with_env=False)
        return {"prog": c["prog"], "gate_seed": c["gate_seed"], "outs_seed": ch.int(0, 10**9), "np_seed": ch.int(0, 10**6)}

    return gen.cases(mk)


def all_outcomes(case):
    """One register size: every outcome 0..2^n-1, supplied as int / as string / prepared with X gates."""
    from jaqalpaq.core.result import parse_jaqal_output_list
    from jaqalpaq.emulator import run_jaqal_circuit

    n = case["n"]
    nat = gates.make_gates(0)
    text = f"register q[{n}]\nloop {2**n} {{ subcircuit {{ }} }}\n"
    c = parse(text, inject_pulses=nat)
    ctx = f"n={n}"
    outs = list(range(2**n))
    if case["as"] == "str":
        supplied = [bits(k, n) for k in outs]
    elif case["as"] == "int":
        supplied = list(outs)
    else:
        supplied = [bits(k, n) if k % 2 else k for k in outs]
    st_, res = guard(parse_jaqal_output_list, c, supplied, what="parse_jaqal_output_list")
    if st_ == "err":
        raise Violation("output-list-rejected", f"{res}\n{ctx}")
    _check_views(res, n, ctx, "all-outcomes-" + case["as"])
    got = [x.as_int for x in res.readouts]
    if got != outs:
        raise Violation("int-vs-string-outputs", f"supplied {supplied[:6]}... read back {got[:6]}...\n{ctx}", where=case["as"])
    rf = np.asarray(res.subcircuits[0].relative_frequency_by_int)
    if not np.array_equal(rf, np.ones(2**n)):
        raise Violation("frequencies-not-counts", f"{rf}\n{ctx}")
    if n <= 6 and case["as"] == "int":
        # emulated basis states: outcome k prepared with X on its set bits must read back k
        lines = [f"register q[{n}]"]
        for k in outs:
            lines.append("subcircuit { " + "; ".join(f"X q[{i}]" for i in range(n) if (k >> i) & 1) + " }")
        c2 = parse("\n".join(lines) + "\n", inject_pulses=nat)
        np.random.seed(1)
        st_, r2 = guard(run_jaqal_circuit, c2, what="run_jaqal_circuit")
        if st_ == "err":
            raise Violation("basis-program-rejected", f"{r2}\n{ctx}")
        _check_views(r2, n, ctx, "basis-states")
        for k, ro in enumerate(r2.readouts):
            if ro.as_int != k or ro.as_str != bits(k, n):
                raise Violation("basis-state-readout", f"prepared {bits(k,n)} read {ro.as_str} ({ro.as_int})\n{ctx}")
            p = r2.subcircuits[k].simulated_probability_by_str
            if abs(p[bits(k, n)] - 1) > 1e-9:
                raise Violation("basis-state-probability", f"prepared {bits(k,n)}: p = {p[bits(k,n)]}\n{ctx}")
    return {"nontrivial": n >= 2, "classes": ["n:%d" % n, "as:" + case["as"]], "key": repr(case), "sample": {"n": n, "outcomes": 2**n, "supplied_as": case["as"]}}


def _enum(tier):
    top = 12 if tier == "thorough" else 10
    return [{"n": n, "as": a} for n in range(1, top + 1) for a in ("int", "str", "mixed")]


def renormalise(case):
    """A slightly non-unitary native gate (scaled by 1+e): clip-and-renormalise must still give
    a distribution."""
    import warnings
    from jaqalpaq.core import GateDefinition, Parameter, ParamType
    from jaqalpaq.core.gatedef import BusyGateDefinition
    from jaqalpaq.emulator import run_jaqal_circuit

    n, e, pattern = case["n"], case["e"], case["pattern"]
    x = np.array([[0, 1], [1, 0]], dtype=complex) * (1 + e)
    h = np.array([[1, 1], [1, -1]], dtype=complex) / np.sqrt(2) * (1 + e)
    nat = {
        "prepare_all": BusyGateDefinition("prepare_all"),
        "measure_all": BusyGateDefinition("measure_all"),
        "XS": GateDefinition("XS", [Parameter("a", ParamType.QUBIT)], ideal_unitary=lambda: x),
        "HS": GateDefinition("HS", [Parameter("a", ParamType.QUBIT)], ideal_unitary=lambda: h),
    }
    lines = [f"register q[{n}]", "subcircuit {"]
    for i, g in enumerate(pattern):
        lines.append(f"{'XS' if g else 'HS'} q[{i % n}]")
    lines.append("}")
    text = "\n".join(lines) + "\n"
    c = parse(text, inject_pulses=nat)
    np.random.seed(2)
    with warnings.catch_warnings():
        warnings.simplefilter("ignore")
        from jaqalpaq.error import JaqalError

        # beyond the documented CUTOFF_FAIL (2e-6 accumulated error) the library raises RuntimeError
        st_, res = guard(run_jaqal_circuit, c, what="run_jaqal_circuit", allowed=(JaqalError, RuntimeError))
    if st_ == "err":
        raise Skip()
    p = np.asarray(res.subcircuits[0].simulated_probability_by_int, dtype=float)
    if (p < 0).any() or abs(p.sum() - 1) > 1e-10:
        raise Violation("not-normalised", f"scale 1+{e}: min {p.min()} sum-1 = {p.sum() - 1:.3g}\n--- program:\n{text}", where="renormalise")
    _check_views(res, n, f"--- program:\n{text}", "renormalise")
    return {"nontrivial": e != 0 and n >= 1, "classes": ["sign:" + ("+" if e > 0 else "-" if e < 0 else "0")], "key": repr(case), "sample": {"text": text, "scale": 1 + e}}


def _renorm_gen(ch):
    n = ch.int(1, 3)
    return {"n": n, "e": ch.pick([1, -1]) * ch.pick([1e-9, 3e-9, 1e-8, 1e-7, 4e-7, 0.0]), "pattern": [ch.int(0, 1) for _ in range(ch.int(1, 5))]}


# ------------------------------------------------------------------------------ long runs

BOUNDARIES = [127, 128, 255, 256, 257, 32767, 32768, 65535, 65536, 65537, 70001]


def _long_gen(ch):
    n = ch.int(1, 3)
    shots = ch.pick(BOUNDARIES) + ch.pick([0, 0, 0, 1, 2])
    # one dominant outcome (so that a single counter crosses the boundary), a few others mixed in
    dom = ch.int(0, 2**n - 1)
    stray = [[ch.int(0, shots - 1), ch.int(0, 2**n - 1)] for _ in range(ch.int(0, 4))]
    shape = ch.pick(["loop", "nested", "subcircuit-count"])
    return {"n": n, "shots": shots, "dominant": dom, "stray": stray, "shape": shape, "emulate": shots <= 40000 and ch.int(0, 3) == 0, "np_seed": ch.int(0, 10**6)}


def long_runs(case):
    """Counters must not wrap or saturate: runs whose length sits at the boundaries of the
    8/15/16-bit integer types, with (nearly) all readouts showing one outcome."""
    from jaqalpaq.core.result import parse_jaqal_output_list
    from jaqalpaq.emulator import run_jaqal_circuit

    n, shots, dom = case["n"], case["shots"], case["dominant"]
    if not (1 <= n <= 3 and 1 <= shots <= 80000 and 0 <= dom < 2**n):
        raise Skip()
    xs = "".join(f"X q[{i}]\n" for i in range(n) if (dom >> i) & 1)
    if case["shape"] == "nested":
        a = max(1, shots // 7)
        text = f"register q[{n}]\nloop 7 {{ loop {a} {{ prepare_all\n{xs}measure_all }} }}\nloop {shots - 7 * a} {{ prepare_all\n{xs}measure_all }}\n"
        nsub = 2
    elif case["shape"] == "subcircuit-count":
        # the repetition count of a subcircuit is an annotation: ONE readout per visit
        text = f"register q[{n}]\nloop {shots} {{ subcircuit {shots} {{ {xs.replace(chr(10), '; ')} }} }}\n"
        nsub = 1
    else:
        text = f"register q[{n}]\nloop {shots} {{ prepare_all\n{xs}measure_all }}\n"
        nsub = 1
    text = text.replace("{  }", "{ }")
    nat = gates.make_gates(1)
    st_, c = guard(parse, text, inject_pulses=nat, what="parse")
    if st_ == "err":
        raise Violation("rejected-valid-program", f"{c}\n{text}")
    outs = [dom] * shots
    for i, v in case["stray"]:
        if 0 <= i < shots and 0 <= v < 2**n:
            outs[i] = v
    ctx = f"shots {shots}, dominant outcome {dom}, strays {case['stray']}\n--- program:\n{text}"
    results = []
    st_, ri = guard(parse_jaqal_output_list, c, list(outs), what="parse_jaqal_output_list(ints)")
    if st_ == "err":
        raise Violation("rejected-output-list", f"{ri}\n{ctx}")
    results.append(("output-ints", ri, outs))
    if case["emulate"]:
        np.random.seed(case["np_seed"])
        st_, re_ = guard(run_jaqal_circuit, c, what="run_jaqal_circuit")
        if st_ == "err":
            raise Violation("rejected-valid-program", f"{re_}\n{ctx}")
        results.append(("emulator", re_, None))
    for who, res, supplied in results:
        if len(res.readouts) != shots or len(res.subcircuits) != nsub:
            raise Violation("readout-count", f"[{who}] {len(res.readouts)} readouts, {len(res.subcircuits)} subcircuits for {shots} visits\n{ctx}", where=who)
        _check_views(res, n, ctx, who)
        got = [int(r.as_int) for r in res.readouts]
        if supplied is not None and got != supplied:
            raise Violation("readouts-differ-from-outputs", f"[{who}]\n{ctx}", where=who)
        total = np.zeros(2**n)
        for sc in res.subcircuits:
            total += np.asarray(sc.relative_frequency_by_int, dtype=float)
        want = np.bincount(got, minlength=2**n).astype(float)
        if not np.array_equal(total, want):
            raise Violation("frequencies-not-counts", f"[{who}] frequencies {total} but the readouts count {want}\n{ctx}", where=who)
        if who == "emulator" and any(g != dom for g in got):
            raise Violation("impossible-outcome", f"[{who}] basis state {dom} prepared, read {sorted(set(got))}\n{ctx}", where=who)
    return {"nontrivial": shots >= 256, "classes": ["shots>=%d" % max(b for b in [1] + BOUNDARIES if b <= shots), "shape:" + case["shape"]] + (["emulated"] if case["emulate"] else []), "key": repr(case), "sample": {"text": text, "shots": shots}}


def parts():
    import os

    big = os.environ.get("VERIF_TIER") == "thorough"
    return [
        Part("renormalise", gen.cases(_renorm_gen), renormalise, quick=300, thorough=5000),
        Part("views", view_cases(7 if big else 5), views, quick=2500, thorough=40000, min_nontrivial=0.2),
        Part("all-outcomes", None, all_outcomes, quick=0, thorough=0, exhaustive=_enum, shards=6),
        Part("long-runs", gen.cases(_long_gen), long_runs, quick=160, thorough=1500, min_nontrivial=0.3),
    ]
