"""C05 — let substitution (with overrides) preserves meaning in the chosen environment."""

from hypothesis import strategies as st

from ..common import Violation, Skip, guard, parse, extract, render, same_meaning, show, Ref, Invalid, prog_features
from ..harness import Part
from .. import gen, gates
from .c07 import _infer_roles, _probe_args

PROPERTY = "C05"
RULE = (
    "Programs use lets in every grammar position (gate argument, qubit index, register size, alias "
    "index/start/stop/step, loop count, subcircuit count), inside macro bodies both unshadowed and shadowed by a "
    "parameter; an override dictionary over a subset of the lets is drawn (integers for lets in integer positions) "
    "and kept only where the reference semantics says the program stays valid. Oracle: f = fill_in_let(c, ov) "
    "contains no Constant anywhere (body, macro bodies, register sizes, alias bounds, loop/subcircuit counts) and every "
    "call of a macro in f is linked to f's own macro of that name; the "
    "independently extracted meaning of f with an EMPTY environment equals the reference meaning under ov (main "
    "body, and every macro body under probe arguments); macro parameters, macro set, native gates and pulse "
    "imports are preserved; parse_jaqal_string(text, expand_let=True, override_dict=ov) gives an equal circuit. "
    "Non-trivial = an overridden let occurs in an integer position, or a parameter shadows a let used elsewhere. "
    "distinct = (text, overrides)."
)
ASSUMPTIONS = ["override keys are declared lets; values int/float finite; overrides that make the program invalid belong to C14"]

_NATIVE_NAMES = ["U1", "R1", "R2", "N1", "U2", "P2", "M2", "U3"]
_NAT = None


def natives():
    global _NAT
    if _NAT is None:
        _NAT = gates.make_gates(7, idle=True, names=_NATIVE_NAMES)
    return _NAT


def cases(native=False):
    if native:
        cfg = gen.Cfg(natives=gates.kinds_table(idle=True, names=_NATIVE_NAMES), reg_args=False, general_numbers=False, max_depth=4, max_lets=5)
    else:
        cfg = gen.Cfg(general_numbers=False, max_depth=4, max_lets=5, shadow=0.6)

    def mk(ch):
        prog, _b = gen.make_prog(ch, cfg)
        return {"prog": prog, "env": gen.overrides(ch, prog, cfg.natives)}

    return gen.cases(mk)


def check(case, mode):
    from jaqalpaq.core.algorithm import fill_in_let
    from jaqalpaq.core.constant import Constant
    from jaqalpaq.core.parameter import Parameter

    prog, env = case["prog"], case["env"]
    text = render.to_text(prog)
    try:
        ref = Ref(prog, env)
        m_ref = ref.validate()
    except Invalid:
        raise Skip()
    kw = {"inject_pulses": natives()} if mode == "native" else {}
    st_, c = guard(parse, text, what="parse", **kw)
    if st_ == "err":
        raise Skip()
    # The pass is judged on the circuit it is given: the expected result is the circuit's own
    # meaning evaluated in the overriding environment (independent extractor).  The text model
    # must agree with it; where it does not (the builder fixes a defaulted slice stop of an
    # alias of an alias at parse time, with the declared let values) the case is outside what
    # this property states and is counted, not judged.
    frozen = gen.frozen_default_risk(prog, env)
    try:
        exc = extract.Extractor(c, env)
        m_c = exc.meaning()
        d_c = exc.declarations()
    except extract.ExtractError as e:
        if frozen:
            raise Skip()
        raise Violation("parsed-circuit-unresolvable-under-override", f"{e}\n--- overrides {env}\n--- program:\n{text}")
    d_ref = ref.declarations()
    if not same_meaning(m_c, m_ref) or d_c["reg"] != d_ref["reg"] or [tuple(x) for x in d_c["maps"]] != [tuple(x) for x in d_ref["maps"]]:
        if frozen:
            raise Skip()
        # only the frozen-default situation is a known, out-of-scope disagreement between the
        # parsed circuit and its text; anything else is the builder's doing
        raise Violation(
            "parsed-circuit-disagrees-with-text-under-override",
            f"circuit (evaluated under the overrides): {show(m_c)}\n{d_c}\nreference: {show(m_ref)}\n{d_ref}\n--- overrides {env}\n--- program:\n{text}",
        )
    env_obj = dict(env) if env else None
    st_, f = guard(fill_in_let, c, env_obj, what="fill_in_let")
    if env_obj is not None and (env_obj != env or list(env_obj) != list(env)):
        # the caller's dictionary is an input too: what the pass writes into it becomes an
        # override of the NEXT program it is used for
        raise Violation("override-dict-modified", f"passed {env}, afterwards {env_obj}\n--- program:\n{text}")
    if st_ == "err":
        raise Violation("rejected-valid-program", f"{f}\n--- overrides {env}\n--- program:\n{text}")
    left = extract.find_objects(f, lambda x: isinstance(x, Constant))
    if left:
        raise Violation("constant-left", f"{left[:3]}\n--- overrides {env}\n--- program:\n{text}")
    # calls of macros are LINKED to definitions (analyses follow the link, not the name): every link
    # in the result leads to the result's own, filled-in macro - not to the input's, which still
    # holds the constants
    from jaqalpaq.core.macro import Macro as _Macro
    from jaqalpaq.core.gate import GateStatement as _GS

    for g_ in extract.find_objects(f, lambda x: isinstance(x, _GS) and isinstance(x.gate_def, _Macro)):
        if f.macros.get(g_.name) is not g_.gate_def:
            raise Violation("stale-macro-link", f"a call of {g_.name} in the result is linked to a definition that is not the result's macro {g_.name}\n--- overrides {env}\n--- program:\n{text}")
    try:
        ex = extract.Extractor(f, {})
        m_f = ex.meaning()
    except extract.ExtractError as e:
        raise Violation("filled-unresolvable", f"{e}\n--- overrides {env}\n--- program:\n{text}")
    if not same_meaning(m_ref, m_f):
        kind = "meaning"
        if "sub" in show(m_ref) and "sub" not in show(m_f):
            kind = "subcircuit-annotation-lost"
        raise Violation(kind, f"expected {show(m_ref)}\ngot      {show(m_f)}\n--- overrides {env}\n--- program:\n{text}")
    # macros: same set, same parameter names, still Parameters; bodies agree under probes
    if [m.name for m in f.macros.values()] != [m["name"] for m in prog["macros"]]:
        raise Violation("macro-set-changed", f"{list(f.macros)}\n--- program:\n{text}")
    for m in prog["macros"]:
        fm = f.macros[m["name"]]
        if [p.name for p in fm.parameters] != list(m["params"]) or not all(isinstance(p, Parameter) for p in fm.parameters):
            raise Violation("macro-parameters-changed", f"{fm.parameters}\n--- program:\n{text}")
        probe = _probe_args(_infer_roles(prog, m), m["params"], ref)
        try:
            mm_ref = ref.macro_meaning(m["name"], probe)
        except Invalid:
            continue
        try:
            mm_f = ex.macro_meaning(m["name"], probe)
        except extract.ExtractError as e:
            raise Violation("macro-body-unresolvable", f"macro {m['name']}: {e}\n--- overrides {env}\n--- program:\n{text}")
        if not same_meaning(mm_ref, mm_f):
            raise Violation("macro-body-meaning", f"macro {m['name']}: expected {show(mm_ref)}\ngot {show(mm_f)}\n--- overrides {env}\n--- program:\n{text}")
    try:
        d_f = ex.declarations()
    except extract.ExtractError as e:
        raise Violation("filled-unresolvable", f"declarations: {e}\n--- overrides {env}\n--- program:\n{text}")
    if d_f["reg"] != d_ref["reg"] or [tuple(x) for x in d_f["maps"]] != [tuple(x) for x in d_ref["maps"]]:
        raise Violation("declarations", f"expected {d_ref}\ngot {d_f}\n--- overrides {env}\n--- program:\n{text}")
    if not (f.native_gates == c.native_gates):
        raise Violation("header-native-gates", "")
    if not (f.usepulses == c.usepulses):
        raise Violation("header-usepulses", f"{f.usepulses} != {c.usepulses}\n--- program:\n{text}")
    # same through the parser flag
    st_, p = guard(parse, text, expand_let=True, override_dict=dict(env) if env else None, what="parse(expand_let)", **kw)
    if st_ == "err":
        raise Violation("parser-flag-rejected", f"{p}\n--- overrides {env}\n--- program:\n{text}")
    if not (p == f):
        raise Violation("parser-flag-differs", f"parse(expand_let=True) != fill_in_let(parse())\n--- overrides {env}\n--- program:\n{text}")
    intpos = gen.int_position_lets(prog)
    lets = {n for n, _ in prog["lets"]}
    shadow = any(p_ in lets for m in prog["macros"] for p_ in m["params"])
    nt = bool(set(env) & intpos) or shadow
    classes = []
    if set(env) & intpos:
        classes.append("override-in-int-position")
    if env:
        classes.append("has-override")
    if shadow:
        classes.append("param-shadows-let")
    feats = prog_features(prog)
    classes += sorted(x for x in feats if x in ("reg-let-size", "map-let-bound", "subcircuit-let-count", "loop-name-count", "name-as-index", "subcircuit", "usepulses"))
    return {"nontrivial": nt, "classes": classes, "key": mode + text + repr(sorted(env.items())), "sample": {"mode": mode, "text": text, "overrides": env}}


def parts():
    return [
        Part("fill-anon", cases(False), lambda c: check(c, "anon"), quick=3000, thorough=80000, min_nontrivial=0.15),
        Part("fill-native", cases(True), lambda c: check(c, "native"), quick=1500, thorough=40000, min_nontrivial=0.15),
    ]
