"""C13 — used-qubit analysis is exact; overlapping parallel branches are rejected."""

import copy

import numpy as np

from ..common import Violation, Skip, guard, parse, render, Ref, Invalid
from ..harness import Part, step_budget
from .. import gen, gates, gen_emul, refexec
from ..model import empty_prog, walk

PROPERTY = "C13"
RULE = (
    "used-exact: executable programs and general native-gate programs (qubits named directly, through alias chains "
    "incl. strided slices, through let-valued indices and macro parameters; loops, nested blocks, busy "
    "prepare/measure gates, idle gates): get_used_qubit_indices(circuit) must equal the reference set exactly "
    "(both inclusions), and so must get_used_qubit_indices(stmt) for every statement of the main body AT ANY DEPTH "
    "(blocks, loop bodies, subcircuit bodies) that is free of busy gates (a statement that reaches a busy gate may be "
    "refused when analysed alone, but an answer must be all qubits of ITS circuit - another circuit of another size "
    "is analysed in between).  Part several-registers: builder-made circuits with 2-3 fundamental registers of "
    "different sizes (the text grammar takes one), gates on drawn qubits, optionally a busy gate: the answer is per "
    "register, for a busy gate every index of every register within its own size.  The overlap programs also place "
    "prepare_all / measure_all inside a branch of a two-branch parallel block (busy wherever they stand).  "
    "parallel-overlap: an executable program in which, with probability 1/2, one overlap is injected into a "
    "parallel block (a gate on a qubit another branch uses, written through a randomly chosen name of that qubit - "
    "register index, alias element, single-qubit alias - or an idle gate on it, which must NOT count): "
    "run_jaqal_circuit raises JaqalError exactly when the reference finds a parallel block with intersecting branch "
    "sets; for accepted programs a drawn permutation of every parallel block's branches gives the same "
    "probabilities.  Non-trivial = alias depth >= 2 or a macro parameter carries the qubit or the overlap is through "
    "two different names of one qubit. distinct = program text."
)
ASSUMPTIONS = ["reference used-set: busy gates = all qubits, idle gates = none, whole-register argument = all its qubits"]


def _names_of_qubit(prog, ref, k):
    """All ways to write fundamental qubit k in the main body."""
    out = []
    regname = prog["reg"][0]
    out.append(["ix", regname, k])
    for m in prog["maps"]:
        kind, el, _d = ref.elems(m[0])
        if kind == "q" and el == k:
            out.append(["id", m[0]])
        elif kind == "reg" and k in el:
            out.append(["ix", m[0], el.index(k)])
    return out


def _used_of_stmt(ref, stmt, n):
    tree = refexec.expand(Ref({**ref.prog, "body": [stmt]}, ref.env))
    return refexec.used(tree, n, sub_busy=False)


_DECOYS = {}


def _decoy(size):
    if size not in _DECOYS:
        _DECOYS[size] = parse(f"register zz_other[{size}]\nprepare_all\nX zz_other[0]\nmeasure_all\n", inject_pulses=gates.make_gates(0))
    return _DECOYS[size]


def used_exact(case):
    from jaqalpaq.core.algorithm import get_used_qubit_indices

    prog = case["prog"]
    text = render.to_text(prog)
    try:
        ref = Ref(prog)
        ref.validate()
        n = ref.reg_size()
        tree = refexec.expand(ref)
    except Invalid:
        raise Skip()
    nat = gates.make_gates(case.get("gate_seed", 0), reg_gates=True)
    st_, c = guard(parse, text, inject_pulses=nat, what="parse")
    if st_ == "err":
        raise Skip()
    regname = prog["reg"][0]
    # gates "reachable" from an unexpanded subcircuit block are the ones written in it (its
    # implicit prepare/measure only exist after expand_subcircuits)
    want = refexec.used(tree, n, sub_busy=False)
    st_, got = guard(get_used_qubit_indices, c, what="get_used_qubit_indices(circuit)")
    if st_ == "err":
        raise Violation("rejected-valid-program", f"{got}\n--- program:\n{text}")
    got_set = set(dict(got).get(regname, set()))
    extra_regs = [k for k, v in dict(got).items() if k != regname and v]
    if got_set != want or extra_regs:
        raise Violation("circuit-used-set", f"got {sorted(got_set)} {extra_regs}, reference {sorted(want)}\n--- program:\n{text}")
    nstm = 0
    mn = {m["name"]: m for m in prog["macros"]}

    def pairs(models, objs):
        """Every statement of the main body, at any depth, paired with its circuit object."""
        for s_model, s_obj in zip(models, objs):
            yield s_model, s_obj
            if s_model[0] in ("seq", "par"):
                yield from pairs(s_model[1], s_obj.statements)
            elif s_model[0] == "loop":
                yield s_model[2], s_obj.statements
                yield from pairs(s_model[2][1], s_obj.statements.statements)
            elif s_model[0] == "sub":
                yield from pairs(s_model[2], s_obj.statements)

    # the analysis of ANOTHER circuit (a register of another size) in between: what "all qubits"
    # means for the statements below is this circuit's business, not the last caller's
    st_, _d = guard(get_used_qubit_indices, _decoy(n + 2), what="get_used_qubit_indices(another circuit)")
    for s_model, s_obj in pairs(prog["body"], c.body.statements):
        busy = any(x[0] == "g" and (x[1] in ("prepare_all", "measure_all") or x[1].startswith("BSY")) for x in walk([s_model])) or any(
            x[0] == "g" and x[1] in mn and _macro_busy(prog, x[1]) for x in walk([s_model])
        )
        st_, g = guard(get_used_qubit_indices, s_obj, what="get_used_qubit_indices(statement)")
        if busy:
            # which qubits "all" are is only known within a circuit: the analysis of a bare
            # statement may refuse (JaqalError), it may not crash or answer something else
            if st_ == "ok" and set(dict(g).get(regname, set())) != set(range(n)):
                raise Violation("statement-used-set", f"statement {s_model} reaches a busy gate: got {dict(g)}, all qubits are {list(range(n))}\n--- program:\n{text}", where="busy")
            continue
        w = _used_of_stmt(ref, s_model, n)
        if st_ == "err":
            raise Violation("rejected-valid-statement", f"{g}\n--- statement of program:\n{text}")
        gs = set(dict(g).get(regname, set()))
        if gs != w:
            raise Violation("statement-used-set", f"statement {s_model}: got {sorted(gs)}, reference {sorted(w)}\n--- program:\n{text}")
        nstm += 1
    # the analysis of a macro BODY under explicit bindings of its parameters (the documented
    # `context` argument): exactly the qubits the body acts on with those arguments
    nctx = 0
    kinds_of = dict(gates.KINDS)
    kinds_of.update(gates.REG_KINDS)
    for m in prog["macros"]:
        if _macro_busy(prog, m["name"]) or any(x[0] == "g" and x[1].startswith("BSY") for x in walk([m["body"]])):
            continue
        roles = _param_roles(prog, m, kinds_of)
        if roles is None:
            continue
        argvals, ctxobj, free = [], {}, list(range(n))
        ok = True
        for p_ in m["params"]:
            role = roles.get(p_, "num")
            if role == "qubit":
                if not free:
                    ok = False
                    break
                k = free.pop((len(p_) + nctx) % len(free))
                argvals.append(("q", k))
                ctxobj[p_] = c.registers[regname][k]
            elif role == "reg":
                argvals.append(("reg", tuple(range(n))))
                ctxobj[p_] = c.registers[regname]
            elif role == "idx":
                argvals.append(("num", 0))
                ctxobj[p_] = 0
            else:
                argvals.append(("num", 1))
                ctxobj[p_] = 1
        if not ok:
            continue
        try:
            tree_m = ref.macro_meaning(m["name"], argvals)
        except Invalid:
            continue
        if _repeats_qubit(tree_m):
            continue
        w = refexec.used(tree_m, n, sub_busy=False)
        st_, g = guard(get_used_qubit_indices, c.macros[m["name"]].body, context=dict(ctxobj), what="get_used_qubit_indices(macro body, context)")
        if st_ == "err":
            raise Violation("rejected-valid-statement", f"body of macro {m['name']} with context {argvals}: {g}\n--- program:\n{text}", where="context")
        gs = set(dict(g).get(regname, set()))
        if gs != w or [k_ for k_, v_ in dict(g).items() if k_ != regname and v_]:
            raise Violation("statement-used-set", f"body of macro {m['name']} with context {argvals}: got {dict(g)}, reference {sorted(w)}\n--- program:\n{text}", where="context")
        nctx += 1
    depth2 = any(m[1] != regname for m in prog["maps"])
    param_q = any(a[0] in ("id", "ix") and (a[1] in m["params"] or (a[0] == "ix" and a[2] in m["params"])) for m in prog["macros"] for s in walk([m["body"]]) if s[0] == "g" for a in s[2])
    classes = ["alias-of-alias"] * depth2 + ["param-carries-qubit"] * param_q + ["statements-checked:%d" % min(nstm, 3)] + ["macro-bodies-with-context:%d" % min(nctx, 3)]
    if any(s_[0] == "g" and s_[1].replace("I_", "") in gates.REG_KINDS for s_ in walk(prog["body"])):
        classes.append("register-argument")
    if isinstance(prog["reg"][1], str):
        classes.append("reg-let-size")
    return {"nontrivial": depth2 or param_q, "classes": classes, "key": text, "sample": {"text": text, "used": sorted(want)}}


def _repeats_qubit(node):
    if node[0] == "g":
        qs = [v[1] for v in node[2] if v[0] == "q"] + [x for v in node[2] if v[0] == "reg" for x in v[1]]
        return len(qs) != len(set(qs))
    if node[0] == "loop":
        return _repeats_qubit(node[2])
    return any(_repeats_qubit(k) for k in (node[2] if node[0] == "sub" else node[1]))


def _param_roles(prog, m, kinds_of, depth=0):
    """How a macro uses its parameters (qubit / reg / idx / count / num); None if unclear."""
    roles = {}
    mnames = {x["name"]: x for x in prog["macros"]}

    def put(p_, r_):
        if roles.get(p_, r_) != r_:
            raise KeyError(p_)
        roles[p_] = r_

    try:
        for s in walk([m["body"]]):
            if s[0] == "g":
                name = s[1][2:] if s[1].startswith("I_") and s[1] not in kinds_of else s[1]
                if s[1] in mnames:
                    if depth > 4:
                        return None
                    inner = _param_roles(prog, mnames[s[1]], kinds_of, depth + 1)
                    if inner is None:
                        return None
                    for a, ip in zip(s[2], mnames[s[1]]["params"]):
                        if a[0] == "id" and a[1] in m["params"]:
                            put(a[1], inner.get(ip, "num"))
                        elif a[0] == "ix":
                            if a[1] in m["params"]:
                                put(a[1], "reg")
                            if isinstance(a[2], str) and a[2] in m["params"]:
                                put(a[2], "idx")
                    continue
                ks = kinds_of.get(name)
                for j, a in enumerate(s[2]):
                    if a[0] == "id" and a[1] in m["params"]:
                        k = ks[j] if ks and j < len(ks) else "f"
                        put(a[1], {"q": "qubit", "r": "reg"}.get(k, "num"))
                    elif a[0] == "ix":
                        if a[1] in m["params"]:
                            put(a[1], "reg")
                        if isinstance(a[2], str) and a[2] in m["params"]:
                            put(a[2], "idx")
            elif s[0] in ("loop", "sub") and isinstance(s[1], str) and s[1] in m["params"]:
                put(s[1], "count")
    except KeyError:
        return None
    return roles


def _macro_busy(prog, name, seen=None):
    mn = {m["name"]: m for m in prog["macros"]}
    for x in walk([mn[name]["body"]]):
        if x[0] == "g" and (x[1] in ("prepare_all", "measure_all") or x[1].startswith("BSY")):
            return True
        if x[0] == "g" and x[1] in mn and x[1] != name and _macro_busy(prog, x[1]):
            return True
    return False


def used_cases():
    kt = gen_emul.kinds_table()
    for name, kinds in gates.REG_KINDS.items():
        kt[name] = list(kinds)
        kt["I_" + name] = list(kinds)
    kt["BSY1"] = ["q"]
    kt["I_BSY1"] = ["q"]  # the idle twin of a busy gate is an idle gate: it uses nothing
    cfg = gen.Cfg(natives=kt, reg_args=False, usepulses=False, general_numbers=False, max_depth=4, macro_bias=1)

    def forwarding(ch):
        """Macros that FORWARD their parameters through 1-3 levels of other macros and are called
        many times with different qubits / indices (per-call state of the analysis shows then)."""
        n = ch.int(2, 6)
        prog = empty_prog()
        prog["reg"] = ["q", n]
        if ch.bool():
            prog["maps"].append(["a", "q", ["s", ch.int(0, 1), None, ch.pick([1, 1, 2])]])
        g1 = ch.pick(["U1", "V1", "X", "I_U1"])
        macros = [{"name": "lv0", "params": ["a"], "body": ["seq", [["g", g1, [["id", "a"]]]]]}]
        if ch.bool():
            macros.append({"name": "ix0", "params": ["i"], "body": ["seq", [["g", "U1", [["ix", "q", "i"]]]]]})
        depth = ch.int(1, 3)
        for d in range(1, depth + 1):
            inner = "lv%d" % (d - 1)
            params = ["a"] if ch.bool() else ["a", "b"]
            body = [["g", inner, [["id", "a"]]]]
            if len(params) == 2:
                body.append(["g", ch.pick([inner, "lv0"]), [["id", "b"]]])
                if ch.bool():
                    body.reverse()
            kind = ch.pick(["seq", "seq", "par"]) if len(params) == 1 or n < 2 else "seq"
            macros.append({"name": "lv%d" % d, "params": params, "body": [kind, body]})
        prog["macros"] = macros
        top = macros[-1]
        regs = ["q"] + (["a"] if prog["maps"] else [])
        sizes = {"q": n}
        if prog["maps"]:
            _t, start, _stop, step = prog["maps"][0][2]
            sizes["a"] = len(range(start, n, step))

        def qarg():
            r = ch.pick([x for x in regs if sizes[x] > 0])
            return ["ix", r, ch.int(0, sizes[r] - 1)]

        def call():
            m = ch.pick([top, top, ch.pick(macros)])
            if m["params"] == ["i"]:
                return ["g", m["name"], [["n", ch.int(0, n - 1)]]]
            args = [qarg() for _ in m["params"]]
            return ["g", m["name"], args]

        body = []
        for _ in range(ch.int(2, 8)):
            k = ch.int(0, 5)
            if k == 0:
                body.append(["loop", ch.int(1, 3), ["seq", [call() for _ in range(ch.int(1, 2))]]])
            elif k == 1:
                body.append(["seq", [call(), call()]])
            else:
                body.append(call())
        prog["body"] = body
        return {"prog": prog, "gate_seed": 0}

    def mk(ch):
        k = ch.int(0, 5)
        if k == 0:
            return forwarding(ch)
        if k <= 2:
            c = gen_emul.make_emulable(ch, max_reg=6, with_env=False)
            return {"prog": c["prog"], "gate_seed": c["gate_seed"]}
        prog, _b = gen.make_prog(ch, cfg)
        # whole-register arguments for every kind of alias the header has (chains of strided
        # slices in particular): `RG a` uses every qubit of a
        try:
            r = Ref(prog)
            n_ = r.reg_size()
            taken = {x[0] for x in prog["lets"]} | {x[0] for x in prog["maps"]} | {x["name"] for x in prog["macros"]} | {prog["reg"][0]}
            if n_ >= 4 and ch.int(0, 2) == 0 and not ({"zev", "zmid", "zw"} & taken):
                # a slice of a STRIDED alias (and a whole alias of that): strides compose
                st = ch.int(0, 1)
                ev = list(range(st, n_, 2))
                a_ = ch.int(0, len(ev) - 2)
                b_ = ch.int(a_ + 2, len(ev)) if a_ + 2 <= len(ev) else len(ev)
                prog["maps"] += [["zev", prog["reg"][0], ["s", st, n_, 2]], ["zmid", "zev", ["s", a_, b_, 1]], ["zw", "zmid", None]]
                r = Ref(prog)
            for m in prog["maps"]:
                if r.elems(m[0])[0] == "reg" and ch.bool():
                    g = ch.pick(["RG", "I_RG", "RQ", "RG"])
                    args = [["id", m[0]]] if g != "RQ" else [["ix", prog["reg"][0], 0], ["id", m[0]]]
                    prog["body"].append(["g", g, args])
        except Invalid:
            pass
        return {"prog": prog, "gate_seed": 0}

    return gen.cases(mk)


# ------------------------------------------------------------------------------ parallel overlap


def _par_blocks(stmts, out):
    for s in stmts:
        if s[0] == "par":
            if len(s[1]) >= 2:
                out.append(s)
            _par_blocks(s[1], out)
        elif s[0] == "seq":
            _par_blocks(s[1], out)
        elif s[0] == "loop":
            _par_blocks([s[2]], out)
        elif s[0] == "sub":
            _par_blocks(s[2], out)
    return out


def overlap_cases():
    def mk(ch):
        c = gen_emul.make_emulable(ch, max_reg=5, with_env=False)
        prog = c["prog"]
        inject = None
        try:
            ref0 = Ref(prog)
            n0 = ref0.reg_size()
            if n0 >= 2 and ch.int(0, 9) < 6:
                # a crafted parallel block: 2-4 branches over disjoint parts of the register,
                # every qubit written through a randomly chosen one of its names
                qs = ch.perm(n0)
                nb = ch.int(2, min(4, n0))
                branches = []
                for b in range(nb):
                    mine = qs[b::nb]
                    gs = []
                    for k in mine:
                        gs.append(["g", ch.pick(["X", "U1", "V1", "I_X"]), [ch.pick(_names_of_qubit(prog, ref0, k))]])
                    if len(mine) >= 2 and ch.bool():
                        gs.append(["g", "U2", [ch.pick(_names_of_qubit(prog, ref0, mine[0])), ch.pick(_names_of_qubit(prog, ref0, mine[1]))]])
                    branches.append(gs[0] if len(gs) == 1 and ch.bool() else ["seq", gs])
                prog["body"].append(["sub", None, [["par", branches]]])
            elif n0 >= 2 and ch.int(0, 3) == 0:
                # prepare_all / measure_all are busy gates wherever they stand: inside a branch of
                # a parallel block they collide with every other branch that uses a qubit
                qa, qb = ch.perm(n0)[:2]
                ga = ["g", "X", [ch.pick(_names_of_qubit(prog, ref0, qa))]]
                gb = ["g", ch.pick(["X", "U1"]), [ch.pick(_names_of_qubit(prog, ref0, qb))]]
                P, M = ["g", "prepare_all", []], ["g", "measure_all", []]
                form = ch.int(0, 3)
                if form == 0:
                    extra = [["par", [["seq", [P, ga]], gb]], M]
                elif form == 1:
                    extra = [P, ["par", [gb, ["seq", [ga, M]]]]]
                elif form == 2:
                    extra = [["par", [P, gb]], M]
                else:
                    extra = [P, ga, ["par", [["seq", [M, P]], gb]], M]
                prog["body"].extend(extra)
        except Invalid:
            pass
        blocks = _par_blocks(prog["body"], [])
        if blocks and ch.bool():
            try:
                ref = Ref(prog)
                n = ref.reg_size()
                blk = ch.pick(blocks)
                ia, ib = ch.sample(range(len(blk[1])), 2)
                ua = _used_of_stmt(ref, blk[1][ia], n)
                if ua:
                    k = ch.pick(sorted(ua))
                    name = ch.pick(_names_of_qubit(prog, ref, k))
                    gname = ch.pick(["X", "U1", "X", "I_X", "I_U1"])
                    new = ["g", gname, [name]]
                    b = blk[1][ib]
                    if b[0] == "seq":
                        b[1].insert(ch.int(0, len(b[1])), new)
                    else:
                        blk[1][ib] = ["seq", [b, new] if ch.bool() else [new, b]]
                    inject = {"qubit": k, "via": name, "gate": gname}
            except Invalid:
                pass
        return {"prog": prog, "gate_seed": c["gate_seed"], "inject": inject, "perm_seed": ch.int(0, 10**6), "np_seed": ch.int(0, 10**6)}

    return gen.cases(mk)


def _permute(stmts, ch):
    out = []
    for s in stmts:
        if s[0] == "par":
            kids = _permute(s[1], ch)
            out.append(["par", [kids[i] for i in ch.perm(len(kids))]])
        elif s[0] == "seq":
            out.append(["seq", _permute(s[1], ch)])
        elif s[0] == "loop":
            out.append(["loop", s[1], _permute([s[2]], ch)[0]])
        elif s[0] == "sub":
            out.append(["sub", s[1], _permute(s[2], ch)])
        else:
            out.append(s)
    return out


def overlap(case):
    from jaqalpaq.emulator import run_jaqal_circuit

    prog = case["prog"]
    text = render.to_text(prog)
    try:
        ref = Ref(prog)
        ref.validate()
        n = ref.reg_size()
        tree = refexec.expand(ref)
    except Invalid:
        raise Skip()
    errs = refexec.static_errors(tree, n)
    if any(k == "repeated-qubit" for k, _c in errs):
        raise Skip()
    if refexec.accept(tree)[0] != "ok" or refexec.unrolled_size(tree) > 2000:
        raise Skip()
    overlapping = any(k == "parallel-overlap" for k, _c in errs)
    nat = gates.make_gates(case["gate_seed"])
    st_, c = guard(parse, text, inject_pulses=nat, what="parse")
    if st_ == "err":
        raise Violation("parse-rejected", f"{c}\n--- program:\n{text}")
    np.random.seed(case["np_seed"])
    with step_budget(2000 * (refexec.unrolled_size(tree) + 50) + 10**6):
        st_, res = guard(run_jaqal_circuit, c, what="run_jaqal_circuit")
    inj = case.get("inject")
    classes = ["ref:overlap" if overlapping else "ref:disjoint"]
    if any(x[0] == "par" and len(x[1]) >= 2 and any(y[0] == "g" and y[1] in ("prepare_all", "measure_all") for y in walk([x])) for x in walk(prog["body"])):
        classes.append("prepare-or-measure-inside-a-parallel-branch")
    if inj:
        classes.append("injected:" + ("idle" if inj["gate"].startswith("I_") else "active"))
    if overlapping:
        if st_ == "ok":
            raise Violation("overlap-accepted", f"reference: parallel branches intersect (injected {inj})\n--- program:\n{text}")
        if "arallel" not in str(res):
            raise Violation("overlap-wrong-error", f"{res}\n--- program:\n{text}")
    else:
        if st_ == "err":
            raise Violation("disjoint-rejected", f"{res} (injected {inj})\n--- program:\n{text}")
        ch = gen.Chooser(case["perm_seed"])
        p2 = copy.deepcopy(prog)
        p2["body"] = _permute(p2["body"], ch)
        for m in p2["macros"]:
            m["body"] = _permute([m["body"]], ch)[0]
        t2 = render.to_text(p2)
        if t2 != text:
            st_, c2 = guard(parse, t2, inject_pulses=nat, what="parse")
            if st_ == "ok":
                np.random.seed(case["np_seed"])
                st_, res2 = guard(run_jaqal_circuit, c2, what="run_jaqal_circuit")
            if st_ == "err":
                raise Violation("branch-order-changes-verdict", f"{c2 if st_=='err' else ''}\n--- program:\n{text}\n--- permuted:\n{t2}")
            for x, y in zip(res.subcircuits, res2.subcircuits):
                if float(np.max(np.abs(np.asarray(x.simulated_probability_by_int) - np.asarray(y.simulated_probability_by_int)))) > 1e-9:
                    raise Violation("branch-order-changes-result", f"subcircuit {x.index}\n--- program:\n{text}\n--- permuted:\n{t2}")
            classes.append("permuted")
    two_names = bool(inj) and not (inj["via"][0] == "ix" and inj["via"][1] == prog["reg"][0])
    depth2 = any(m[1] != prog["reg"][0] for m in prog["maps"])
    return {"nontrivial": two_names or depth2 or bool(prog["macros"]), "classes": classes + (["overlap-via-alias"] if two_names else []), "key": text, "sample": {"text": text, "injected": inj, "reference_overlap": overlapping}}


def _two_reg_gen(ch):
    sizes = [ch.int(1, 6) for _ in range(ch.int(2, 3))]
    names = ch.sample(["a", "b", "r", "q"], len(sizes))
    gates_ = []
    for _ in range(ch.int(0, 5)):
        j = ch.int(0, len(sizes) - 1)
        gates_.append([names[j], ch.int(0, sizes[j] - 1)])
    return {"regs": [[n_, z] for n_, z in zip(names, sizes)], "gates": gates_, "busy": ch.pick([None, None, "prepare_all", "measure_all", "GlobalWait"]), "alias": ch.bool(), "nest": ch.int(0, 2)}


def two_registers(case):
    """A circuit made with the builder may hold several fundamental registers (the text grammar
    takes one): the analysis answers per register - exactly the indices used, and for a busy gate
    every index of EVERY register, each within its own size."""
    from jaqalpaq.core.circuitbuilder import CircuitBuilder
    from jaqalpaq.core import GateDefinition, Parameter, ParamType
    from jaqalpaq.core.gatedef import BusyGateDefinition
    from jaqalpaq.core.algorithm import get_used_qubit_indices

    nat = {
        "prepare_all": BusyGateDefinition("prepare_all"),
        "measure_all": BusyGateDefinition("measure_all"),
        "GlobalWait": BusyGateDefinition("GlobalWait", [Parameter("t", ParamType.FLOAT)]),
        "X": GateDefinition("X", [Parameter("q", ParamType.QUBIT)]),
    }
    b = CircuitBuilder(native_gates=nat)
    robj = {}
    for n_, z in case["regs"]:
        robj[n_] = b.register(n_, z)
    alias_of = {}
    if case["alias"]:
        n0, z0 = case["regs"][-1]
        b.map("zz_al", robj[n0], slice(0, z0, 1))
        alias_of[n0] = "zz_al"
    holder = b.block() if case["nest"] else b
    want = {}
    for i, (n_, k) in enumerate(case["gates"]):
        holder.gate("X", ("array_item", alias_of.get(n_, n_) if i % 2 else n_, k))
        want.setdefault(n_, set()).add(k)
    if case["busy"]:
        holder.gate(case["busy"], *([0.5] if case["busy"] == "GlobalWait" else []))
        want = {n_: set(range(z)) for n_, z in case["regs"]}
    st_, c = guard(b.build, what="CircuitBuilder.build")
    if st_ == "err":
        raise Skip()
    st_, u = guard(get_used_qubit_indices, c, what="get_used_qubit_indices(circuit with several registers)")
    desc = f"registers {case['regs']}, X on {case['gates']}, busy gate {case['busy']}, alias of the last register {case['alias']}"
    if st_ == "err":
        raise Violation("used-set", f"{u}\n{desc}", where="several-registers")
    got = {k: set(v) for k, v in dict(u).items() if v}
    if got != {k: v for k, v in want.items() if v}:
        raise Violation("used-set", f"got {got}, expected {want}\n{desc}", where="several-registers")
    return {"nontrivial": bool(case["busy"]) and len({z for _n, z in case["regs"]}) >= 2, "classes": ["registers:%d" % len(case["regs"]), "busy:%s" % bool(case["busy"])], "key": repr(case), "sample": case}


def parts():
    return [
        Part("several-registers", gen.cases(_two_reg_gen), two_registers, quick=600, thorough=8000, min_nontrivial=0.1),
        Part("used-exact", used_cases(), used_exact, quick=4000, thorough=80000, min_nontrivial=0.2),
        Part("parallel-overlap", overlap_cases(), overlap, quick=3000, thorough=60000, min_nontrivial=0.2),
    ]
