"""C16 — failures are JaqalErrors with a position; no crashes, hangs or sticky state."""

import re

from ..common import Violation, Skip, render
from ..harness import Part, step_budget, BudgetExceeded, innermost_repo_frame
from .. import gen, refgrammar, pristine, REPO_SRC
from ..render import prog_tokens
from . import c02

PROPERTY = "C16"
RULE = (
    "strings: texts drawn from (a) random strings over Jaqal lexemes plus junk characters (@ # $ ' \" \\r \\f \\0, "
    "non-ASCII), (b) token soups, (c) every kind of prefix (character- and token-granular) of rendered valid "
    "programs, (d) character-level mutations of valid programs (deleted/duplicated/replaced/inserted characters, "
    "unterminated /* , unbalanced braces, indexing of lets and single-qubit aliases, no register, two registers), "
    "handed to parse_jaqal_string (anonymous gates, and with an injected native gate set), parse_jaqal_string_header, parse_jaqal_string with relative "
    "pulse import under two different import directories, run_jaqal_string, and parse_jaqal_file / run_jaqal_file (the program written next to copies of "
    "the pulse modules, so the documented default import path applies); pulse modules on disk under vlib/pulses in four layouts (file, package with "
    "jaqal_gates in __init__, package with a jaqal_gates submodule, module inside a sub-package) and missing ones.  Oracle: the "
    "call returns, raises JaqalError, or raises ImportError when (and only when) the text names a pulse module that "
    "does not exist; nothing else may escape; a deterministic step budget (5000 x (len+100) line events) is "
    "respected; a JaqalParseError carries a position (line a positive int within the text or the end-of-input "
    "marker, column a non-negative int within the line).  For token-built texts the independent Earley recognizer "
    "of C02 decides well-formedness and an ill-formed text must raise JaqalParseError specifically; texts with an "
    "illegal character or an unterminated block comment must raise JaqalParseError too.  histories: sequences of "
    "2-8 texts (failing and succeeding, incl. relative pulse imports) are processed in ONE process; every text's "
    "outcome (exception type and message, or generated text + repr) must equal its outcome in a pristine "
    "interpreter (a freshly spawned python that imports only the entry point and has not imported "
    "importlib.util).  Non-trivial = the input is rejected, or the history interleaves a failing and a succeeding "
    "text. distinct = (entry, text) resp. history."
    " The history pool also holds sibling families (the same outer macro called with the same arguments over a different inner macro / let value / register size / a second register; parse-expand, parse, run and parse-rel entries); string mutations include boundary values put where a number stands (0, -1, fractions, 2**63, 1.0e300) and Windows line ends."
)
ASSUMPTIONS = [
    "raw character strings get the weak oracle only (an independent character-level lexer would duplicate the lexer's regular expressions)",
    "the pristine interpreter is `python -c` importing vlib.pristine (stdlib json/os/subprocess only) and then the entry point",
]

JUNK = ["@", "#", "$", "'", '"', "\r", "\f", "\0", "é", "→", "`", "\\", "?", "!", "%", "&", "=", "(", ")", "~", "^", "٢", "２", "\x85", "\u2028", "\x1c", "\v"]
LEXEMES = (
    ["register", "map", "let", "macro", "loop", "from", "usepulses", "import", "as", "branch", "subcircuit"]
    + list("<>|{};[],*:")
    + ["\n", "\n", " ", " ", "\t", "//", "/*", "*/", "q", "g", "x", "q[0]", "a.b", ".m", "0", "1", "-2", "3.5", "1e5", ".5", "'01'", "prepare_all", "measure_all"]
)
_ABSOLUTE = {"vlib.pulses.full", "vlib.pulses.moda", "vlib.pulses.modb", "vlib.pulses.pkgc", "vlib.pulses.pkgd", "vlib.pulses.alt.moda"}
# pulse modules that exist, by the import directory the entry point puts in force: single
# files, a package whose __init__ holds jaqal_gates, a package with a jaqal_gates submodule
# (the qscout layout), a module inside a sub-package (dotted relative name)
EXISTING_MODULES = _ABSOLUTE | {".moda", ".modb", ".pkgc", ".pkgd", ".alt.moda"}
EXISTING_ALT = _ABSOLUTE | {".moda"}
MISSING_MODULES = ["nosuch.module", ".relmissing", "vlib.pulses.nosuch", "vlib.nosuchpkg.mod", ".alt.nosuch", ".pkgd.nosuch", ".nosuchpkg.moda", ".plaindir", ".plaindir.x"]
IMPORTING = ("parse-rel", "run", "parse-file", "run-file", "parse-alt", "parse-inj-load", "parse-nopath", "parse-filepath")

RUNNABLE = [
    "from .pkgc usepulses *\nregister q[2]\nsubcircuit { XC q[1] }\n",
    "from .pkgd usepulses *\nlet t 0.5\nregister q[2]\nsubcircuit 2 { XD q[0] t }\n",
    "from .alt.moda usepulses *\nregister q[2]\nsubcircuit { XALT q[0]; GP q[0] q[1] }\n",
    "from vlib.pulses.moda usepulses *\nregister q[2]\nprepare_all\nXA q[0]\nGP q[1]\nmeasure_all\n",
    "from .modb usepulses *\nregister q[2]\nsubcircuit { GP q[0] q[1]; XB q[1] }\n",
    "from vlib.pulses.moda usepulses *\nfrom vlib.pulses.modb usepulses *\nlet n 2\nregister q[n]\nmap a q[1]\nloop 2 { subcircuit { XA a; < XB q[0] > } }\n",
    "from .moda usepulses *\nregister q[1]\nmacro m p { XA p }\nsubcircuit 3 { m q[0] }\n",
]


def _valid_text(ch):
    if ch.int(0, 2) == 0:
        t = ch.pick(RUNNABLE)
        return t, "runnable"
    prog, _b = gen.make_prog(ch, gen.Cfg(max_depth=3, max_body=3, general_numbers=ch.bool()))
    return render.to_text(prog) + "\n", "generated"


def _string_case(ch):
    kind = ch.pick(["junk", "soup", "prefix-char", "prefix-token", "mutate", "mutate", "special", "missing-module"])
    entry = ch.pick(["parse", "parse", "parse", "header", "header", "parse-rel", "parse-rel", "run", "run", "parse-inj", "parse-inj", "parse-file", "run-file", "parse-alt", "parse-inj-load", "parse-expand", "parse-expand", "parse-nopath", "parse-filepath"])
    tokens = None
    if kind == "junk":
        n = ch.int(0, 40)
        text = "".join(ch.pick(LEXEMES + JUNK) + ch.pick(["", " ", " "]) for _ in range(n))
    elif kind == "soup":
        toks = [ch.pick(c02.POOL) for _ in range(ch.int(0, 25))]
        tokens = [list(t) for t in toks]
        text = " ".join(t[1] for t in toks)
    elif kind == "prefix-char":
        t, _k = _valid_text(ch)
        text = t[: ch.int(0, len(t))]
    elif kind == "prefix-token":
        prog, _b = gen.make_prog(ch, gen.Cfg(max_depth=3, max_body=3, general_numbers=False))
        toks = c02._token_stream(prog, ch.ints(16, 0, 5))
        toks = toks[: ch.int(0, len(toks))]
        tokens = [list(t) for t in toks]
        text = " ".join(t[1] for t in toks)
    elif kind == "mutate":
        t, _k = _valid_text(ch)
        for _ in range(ch.int(1, 3)):
            if not t:
                break
            i = ch.int(0, len(t) - 1)
            op = ch.pick(["delete", "dup", "replace-junk", "insert-junk", "insert-lexeme", "drop-brace", "open-comment", "tweak-number", "tweak-number", "crlf"])
            if op == "delete":
                t = t[:i] + t[i + 1 :]
            elif op == "dup":
                t = t[:i] + t[i] + t[i:]
            elif op == "replace-junk":
                t = t[:i] + ch.pick(JUNK) + t[i + 1 :]
            elif op == "insert-junk":
                t = t[:i] + ch.pick(JUNK) + t[i:]
            elif op == "insert-lexeme":
                t = t[:i] + " " + ch.pick(LEXEMES) + " " + t[i:]
            elif op == "tweak-number":
                # a boundary value where the program has a number (a let used as size, bound,
                # step, index or count becomes 0, negative, fractional or too large)
                nums = list(re.finditer(r"(?<![A-Za-z0-9_.])[-+]?[0-9]+(?:\.[0-9]+)?(?![A-Za-z0-9_.])", t))
                if nums:
                    m_ = nums[i % len(nums)]
                    t = t[: m_.start()] + ch.pick(["0", "-1", "1", "2", "7", "0.5", "2.5", "-0.0", "1.0", "9223372036854775808", "1.0e300"]) + t[m_.end() :]
            elif op == "crlf":
                # Windows line ends: \r is not a Jaqal character (every or only the first line)
                t = t.replace("\n", "\r\n") if ch.bool() else t.replace("\n", "\r\n", 1)
            elif op == "drop-brace":
                j = max(t.rfind("}"), t.rfind(">"))
                if j >= 0:
                    t = t[:j] + t[j + 1 :]
            else:
                t = t[:i] + "/* never closed " + t[i:]
        text = t
    elif kind == "special":
        text = ch.pick(
            [
                "let n 2\nregister q[2]\ng n[0]\n",
                "register q[2]\nmap a q[1]\ng a[0]\n",
                "g q[0]\n",
                "let a 1\nprepare_all\nmeasure_all\n",
                "register q[2]\nregister r[2]\ng q[0] r[1]\n",
                "from vlib.pulses.moda usepulses *\nprepare_all\nmeasure_all\n",
                "from vlib.pulses.moda usepulses *\nregister q[2]\nregister r[1]\nprepare_all\nmeasure_all\n",
                "from vlib.pulses.moda usepulses *\nregister q[1]\nprepare_all\nXA q[1]\nmeasure_all\n",
                "from vlib.pulses.moda usepulses *\nregister q[1]\nXA q[0]\n",
                "register q[2]\nloop 2 {\n",
                "register q[2]\n< g q[0] | \n",
                "/* unterminated",
                "register q[2] /* open\ng q[0]\n",
                "",
                "\n\n;;\n",
                "register q[99999999999999999999]\n",
                "register q[2]\nloop 100000000000 { g q[0] }\n",
                "let x 1e400\n",
                "register q[2]\ng q[00000000000000000001]\n",
                "macro m a a { g a }\n",
                "register q[2]\nmacro m { m }\nm\n",
                "register q[2]\nmacro m a { m a }\nm q[0]\n",
                "let n 2.5\nregister q[n]\ng q[0]\n",
                "register q[1]\ng " + "7" * 4400 + "\n",

                "let x " + "0" * 4400 + "1\nregister q[1]\n",
                "register q[1]\ng q '" + "1" * 15000 + "'\n",
                "let n 2.5\nregister q[n]\nmap s q[1]\nmap w q\ng w[0] s\n",
                "let n -1\nregister q[n]\ng q[0]\n",
                "let k 0.5\nregister q[2]\nmap a q[k:2]\ng a[0]\n",
                "let s 0\nregister q[2]\nmap r q[0:2:s]\ng r[0]\n",
                "let k 9223372036854775808\nregister b[5]\nmap n b[0:k]\ng n[1]\n",
                "register q[100000000000000000000]\nmap w q[4:]\nmap v w[1:]\ng v[0]\n",
                "let x 18446744073709551616\nregister s[x]\nmap r s[0:x]\ng r[1]\n",
                "let s 0\nregister q[4]\nmap r q[::s]\nmap t r\nloop 2 { g t[1] }\n",
                "let s -1\nregister q[4]\nmap r q[3:0:s]\nmacro m a { g a }\nm r[0]\n",
                "register q[2]\nmacro a { b }\nmacro b { a }\na\n",
                # a FLAT chain of macros, each calling the previous one (no nested blocks at all)
                "register q[1]\nmacro m0 a { g a }\n" + "".join(f"macro m{i} a {{ m{i-1} a }}\n" for i in range(1, 400)) + "m399 q[0]\n",
                "from vlib.pulses.moda usepulses *\nregister q[1]\nmacro m0 a { XA a }\n" + "".join(f"macro m{i} a {{ m{i-1} a }}\n" for i in range(1, 400)) + "subcircuit { m399 q[0] }\n",
                "register q[2]\nmacro m a { g a }\nloop 2 { m q[1] }\nm 1.5\n",
                "register q[1]\nbranch { '0': { g q[0] } }\n",
                "from . usepulses *\nregister q[1]\n",
                "from a..b usepulses *\n",
                "let x 1.0e309\n",
                "let y -2.5E+999\nregister q[1]\n",
                "register q[1]\ng 1.0e309\n",
                "import a as b\n",
                "\n\n\n\n   register r[0]\n",
                "register r[٢]\n",
                "register r[2]\ng ２\n",
                "register r[2] /* a\rb\x85c\u2028d */\n}\n",
                "from vlib.pulses.moda usepulses *\nlet n 2.5\nregister q[1]\nloop n { subcircuit { XA q[0] } }\n",
                "from vlib.pulses.moda usepulses *\nlet n -1\nregister q[1]\nloop n { subcircuit { XA q[0] } }\n",
                "from vlib.pulses.moda usepulses *\nlet n 0.5\nregister q[1]\nsubcircuit n { XA q[0] }\n",
                "from vlib.pulses.moda usepulses *\nlet n 1\nregister q[n]\nmap a q[n]\nsubcircuit { XA a }\n",
                "from vlib.pulses.moda usepulses *\nregister q[2]\nmacro m a b { GP a }\nsubcircuit { m q[0] }\n",
                "from vlib.pulses.moda usepulses *\nregister q[2]\nmacro m a { GP a a }\nsubcircuit { m q[0] }\n",
                "from vlib.pulses.modb usepulses *\nregister q[2]\nsubcircuit { GP q[0] q[0] }\n",
                "from vlib.pulses.full usepulses *\nregister q[2]\nsubcircuit { U2 q[0] q[0] }\n",
                "from vlib.pulses.full usepulses *\nregister q[2]\nmap a q[1]\nmacro m x y { U2 x y }\nsubcircuit { m q[1] a }\n",
                "from vlib.pulses.full usepulses *\nregister q[3]\nsubcircuit { U3 q[0] q[2] q[0] }\n",
                "from vlib.pulses.modb usepulses *\nregister q[2]\nsubcircuit { < XB q[0] | XB q[0] > }\n",
            ]
        )
    else:
        mod = ch.pick(MISSING_MODULES)
        text = f"from {mod} usepulses *\nregister q[2]\nprepare_all\nXA q[0]\nmeasure_all\n"
        entry = ch.pick(["parse-rel", "run", "parse", "parse-file", "run-file", "parse-alt", "parse-nopath", "parse-filepath"])
    return {"text": text, "entry": entry, "kind": kind, "tokens": tokens}


_BIGNUM = re.compile(r"[0-9]{3,}|[0-9.][eE][-+0-9]")
_USEP = re.compile(r"from\s+(\.?[A-Za-z_](?:\.?[A-Za-z0-9_])*|\.)\s+usepulses")


def _names_missing_module(text, entry="parse-rel"):
    existing = EXISTING_ALT if entry == "parse-alt" else _ABSOLUTE if entry in ("parse-nopath", "parse-filepath") else EXISTING_MODULES
    return any(m not in existing for m in _USEP.findall(text))


def strings(case):
    text, entry = case["text"], case["entry"]
    if entry in ("run", "run-file") and _BIGNUM.search(text):
        # honest execution cost is unbounded in the size of the numbers (2^n states, n
        # iterations): not a termination question, outside this check
        raise Skip()
    budget = 5000 * (len(text) + 100)
    try:
        with step_budget(budget):
            out = pristine.outcome(entry, text)
    except BudgetExceeded:
        raise Violation("nontermination", f"step budget {budget} exceeded\nentry {entry}\n--- text:\n{text!r}", where=entry)
    classes = ["kind:" + case["kind"], "entry:" + entry]
    ctx = f"entry {entry}\n--- text:\n{text!r}"
    rejected = out[0] == "err"
    if rejected:
        _tag, tname, is_jaqal, msg, pos = out
        classes.append("outcome:" + ("JaqalParseError" if tname == "JaqalParseError" else "JaqalError" if is_jaqal else tname))
        if not is_jaqal:
            if tname in ("ImportError", "ModuleNotFoundError"):
                if entry not in IMPORTING or not _names_missing_module(text, entry):
                    raise Violation("unexpected-importerror", f"{tname}: {msg}\n{ctx}", where=entry)
            else:
                raise Violation("foreign-exception", f"{tname}: {msg}\n{ctx}", where=tname)
        if tname == "JaqalParseError":
            line, col = pos
            seen = text.replace("\r\n", "\n").replace("\r", "\n") if entry.endswith("-file") else text  # files are read with universal newlines
            lines = seen.split("\n")
            ok_line = line == "EOF" or (isinstance(line, int) and not isinstance(line, bool) and 1 <= line <= len(lines) + 1)
            ok_col = isinstance(col, int) and not isinstance(col, bool) and col >= 0
            if ok_line and ok_col and isinstance(line, int) and line <= len(lines):
                ok_col = col <= len(lines[line - 1]) + 1
            if not (ok_line and ok_col):
                raise Violation("bad-position", f"line={line!r} column={col!r}: {msg}\n{ctx}", where=entry)
    else:
        classes.append("outcome:ok")
    # token-built texts: the recognizer decides well-formedness
    if case.get("tokens") is not None and entry in ("parse", "header", "parse-expand"):
        vt = c02._value_tokens([tuple(t) for t in case["tokens"]])
        acc, k = refgrammar.earley([x[0] for x in vt])
        if not acc and entry in ("parse", "parse-expand"):
            if not rejected or out[1] != "JaqalParseError":
                raise Violation("ill-formed-text-not-a-parse-error", f"recognizer rejects (first offending token {k}); outcome {out[:2]}\n{ctx}", where=entry)
    # lexical faults that every entry point must report as parse errors
    if entry == "parse" and _has_lexical_fault(text):
        if not rejected or out[1] != "JaqalParseError":
            raise Violation("lexical-fault-not-a-parse-error", f"outcome {out[:4]}\n{ctx}", where=entry)
        classes.append("lexical-fault")
    return {"nontrivial": rejected, "classes": classes, "key": entry + text, "sample": {"entry": entry, "text": text, "outcome": out[:2]}}


def _has_lexical_fault(text):
    """Conservative: an illegal character outside any comment, decided without the lexer:
    only claimed when the text contains no comment opener at all."""
    if "/" in text:
        return False
    return any(c in text for c in "@#$\"`\\?!%&=()~^\r\f\0é→٢２\x85\u2028\x1c\v")


# ------------------------------------------------------------------------------ histories

POOL_TEXTS = [
    ("parse", "register q[2]\ng q[0]\n"),
    ("parse", "register q[2]\ng q[2]\n"),
    ("parse", "register q[2]\ng q[0] @\n"),
    ("parse", "register q[2]\nloop 2 {\n"),
    ("parse", "/* open"),
    ("parse", "let a 1\nlet a 2\n"),
    ("parse", "register q[2]\nmacro m p { g p }\nm q[1]\n< g q[0] | m q[1] >\n"),
    ("parse", "register q[2] } \n"),
    ("parse", "}"),
    ("parse", "let x 1.0e-06\nregister q[1]\n// c\n/* a */ g x /* b */\n"),
    ("parse", "import a as b\n"),
    ("parse", "\n\n\n\n   register r[0]\n"),
    ("header", "import a as b\n"),
    ("parse", "let x 1.0e309\n"),
    ("parse", "register q[2]\n\n\n   import a as b\n"),
    ("header", "let n 3\nregister q[n]\ng q[0]\nsyntax error here {{{\n"),
    ("header", "register q[0]\n"),
    ("parse-rel", "from .moda usepulses *\nregister q[2]\nXA q[0]\nGP q[1]\n"),
    ("parse-rel", "from .modb usepulses *\nregister q[2]\nGP q[0] q[1]\n"),
    ("parse-rel", "from .moda usepulses *\nregister q[2]\nGP q[0] q[1]\n"),
    ("parse-rel", "from .relmissing usepulses *\nregister q[2]\n"),
    ("parse-rel", "from vlib.pulses.moda usepulses *\nregister q[1]\nXA q[0]\n"),
    ("parse-rel", "from nosuch.module usepulses *\nregister q[1]\n"),
    ("parse-rel", "register q[1]\nXA q[0]\n"),
    ("parse-rel", "from moda usepulses *\nregister q[2]\nXA q[0]\n"),
    ("parse-rel", "from modb usepulses *\nregister q[2]\nXB q[0]\n"),
    ("run", "from .moda usepulses *\nregister q[2]\nsubcircuit { XA q[1] }\n"),
    ("run", "from .moda usepulses *\nregister q[2]\nXA q[1]\n"),
    ("run", "from vlib.pulses.modb usepulses *\nregister q[2]\nloop 2 { prepare_all; GP q[0] q[1]; measure_all }\n"),
    ("run", "from .moda usepulses *\nprepare_all\nmeasure_all\n"),
    ("parse-rel", "from .pkgc usepulses *\nregister q[2]\nXC q[0]\n"),
    ("parse-rel", "from .pkgd usepulses *\nregister q[2]\nXD q[0] 1.5\n"),
    ("parse-rel", "from .alt.moda usepulses *\nregister q[2]\nXALT q[0]\nGP q[0] q[1]\n"),
    ("parse-rel", "from .alt.nosuch usepulses *\nregister q[2]\n"),
    ("parse-rel", "from .pkgd.nosuch usepulses *\nregister q[2]\n"),
    ("parse-rel", "from vlib.pulses.pkgd usepulses *\nregister q[2]\nXD q[1] 0.25\n"),
    ("parse-rel", "from vlib.pulses.alt.moda usepulses *\nregister q[2]\nXALT q[1]\n"),
    ("parse-alt", "from .moda usepulses *\nregister q[2]\nXALT q[0]\nGP q[0] q[1]\n"),
    ("parse-alt", "from .moda usepulses *\nregister q[2]\nXA q[0]\nGP q[1]\n"),
    ("parse-alt", "from .modb usepulses *\nregister q[2]\n"),
    ("parse-alt", "from vlib.pulses.moda usepulses *\nregister q[2]\nXA q[0]\nGP q[1]\n"),
    ("parse-file", "from .moda usepulses *\nregister q[2]\nXA q[0]\nGP q[1]\n"),
    ("parse-file", "from .moda usepulses *\nregister q[2]\nGP q[0] q[1]\n"),
    ("parse-file", "from .alt.moda usepulses *\nregister q[2]\nGP q[0] q[1]\n"),
    ("parse-file", "from .relmissing usepulses *\nregister q[2]\n"),
    ("parse-file", "register q[2]\nloop 2 {\n"),
    ("run-file", "from .modb usepulses *\nregister q[2]\nsubcircuit { GP q[0] q[1]; XB q[1] }\n"),
    ("run-file", "from .pkgd usepulses *\nregister q[2]\nsubcircuit { XD q[1] 1.0 }\n"),
    ("run-file", "from .moda usepulses *\nregister q[2]\nXA q[1]\n"),
    ("run", "from .pkgc usepulses *\nregister q[2]\nsubcircuit { XC q[0] }\n"),
    ("parse-nopath", "from .moda usepulses *\nregister q[2]\nXA q[0]\n"),
    ("parse-filepath", "from .moda usepulses *\nregister q[2]\nXA q[0]\n"),
    ("parse-rel", "from .plaindir usepulses *\nregister q[2]\n"),
    ("parse-nopath", "from vlib.pulses.moda usepulses *\nregister q[2]\nXA q[0]\n"),
    ("parse-expand", "register q[2]\nmacro m { m }\nm\n"),
    ("parse-expand", "let n 2\nregister q[n]\nmacro m a { g a n }\nloop n { m q[1] }\n"),
    ("parse-inj-load", "from vlib.pulses.modb usepulses *\nregister q[2]\nXB q[0]\nGP q[1]\n"),
    ("parse-inj-load", "from .modb usepulses *\nregister q[2]\nGP q[1]\nSP q[0]\n"),
    ("parse-inj-load", "from vlib.pulses.pkgd usepulses *\nregister q[2]\nXD q[0] 0.5\nXA q[1]\n"),
    ("parse-rel", "from vlib.pulses.modb usepulses *\nregister q[2]\nGP q[0] q[1]\nSP q[1]\n"),
    ("run", "from vlib.pulses.modb usepulses *\nregister q[2]\nsubcircuit { GP q[0] q[1]; SP q[1] }\n"),
    ("parse-inj", "register q[2]\nmacro flip a { XA a }\nflip q[0]\n"),
    ("parse-inj", "register q[2]\nflip q[0]\n"),
    ("parse-inj", "register q[2]\nmacro pair a { XA a }\npair q[0]\n"),
    ("parse-inj", "register q[2]\nmacro pair a b { XA a; XA b }\npair q[0]\n"),
    ("parse-inj", "register q[2]\nmacro flip a { GP a }\nflip q[0]\n"),
    ("parse", "register q[2]\nmacro flip a { XA a }\nflip q[0]\n"),
    ("parse", "register q[2]\nmacro flip a b { XA a }\nflip q[0]\n"),
    ("parse-inj", "register q[2]\nXA q[0]\nGP q[1]\n"),
    ("parse-inj", "register q[2]\nXA q[0] q[1]\n"),
    ("parse-inj", "register q[2]\nNoSuch q[0]\n"),
]


def _sibling_texts():
    """Families of programs that share most of their text - the same outer macro, called with the
    same arguments - and differ in ONE thing the shared part depends on (the inner macro, a let, the
    register, a second register that makes the program unfit for execution): whatever the library
    remembers about one of them must not be served to another."""
    out = []
    for inner in ("X a", "Y a", "X a; X a"):
        for n in (0, 1):
            for size in (2, 3):
                for tworeg in (False, True):
                    t = (
                        f"let n {n}\nregister q[{size}]\n" + ("register r[2]\n" if tworeg else "")
                        + f"macro inner a {{ {inner} }}\nmacro outer a {{ inner a; g q[n] }}\nouter q[1]\nloop 2 {{ outer q[0] }}\n"
                    )
                    out.append(("parse-expand", t))
                    if n == 0 and size == 2:
                        out.append(("parse", t))
    for inner in ("XA a", "GP a", "XA a; GP a"):
        for size in (2, 3):
            t = f"from .moda usepulses *\nregister q[{size}]\nmacro inner a {{ {inner} }}\nmacro outer a {{ inner a }}\nsubcircuit {{ outer q[1] }}\n"
            out.append(("run", t))
            out.append(("parse-rel", t))
    return out


POOL_TEXTS = POOL_TEXTS + _sibling_texts()
# a RELATIVE import of a name that is also a loaded top-level module of the process: there is no
# such pulse module next to the program, so the import fails - and must leave that module alone
POOL_TEXTS = POOL_TEXTS + [
    ("parse-rel", "from .numpy usepulses *\nregister q[2]\n"),
    ("run", "from .numpy usepulses *\nregister q[1]\nsubcircuit { }\n"),
    ("parse-file", "from .numpy.linalg usepulses *\nregister q[2]\n"),
]

_PRISTINE_CACHE = {}


def _pristine(entry, text):
    k = (entry, text)
    if k not in _PRISTINE_CACHE:
        _PRISTINE_CACHE[k] = pristine.pristine_outcome(entry, text, REPO_SRC)
    return _PRISTINE_CACHE[k]


def prepare(part_names, ncpu):
    """The pool texts' pristine outcomes, computed once (in parallel) before the shards fork."""
    if "histories" not in part_names:
        return
    from concurrent.futures import ThreadPoolExecutor

    todo = [k for k in POOL_TEXTS if k not in _PRISTINE_CACHE]
    with ThreadPoolExecutor(max_workers=ncpu) as ex:
        for k, o in zip(todo, ex.map(lambda k: pristine.pristine_outcome(k[0], k[1], REPO_SRC), todo)):
            _PRISTINE_CACHE[k] = o


def _history_case(ch):
    n = ch.int(2, 8)
    items = []
    for _ in range(n):
        if ch.int(0, 9) == 0:
            c = _string_case(ch)
            if len(c["text"]) < 400 and not (c["entry"] in ("run", "run-file") and _BIGNUM.search(c["text"])):
                items.append([c["entry"], c["text"]])
                continue
        e, t = ch.pick(POOL_TEXTS)
        items.append([e, t])
    return {"history": items}


def histories(case):
    hist = case["history"]
    outcomes = []
    # cases share the shard's interpreter: forget what earlier CASES registered under the
    # bare module names, so that a case's history is exactly the calls listed in it
    import sys

    for k in [k for k in sys.modules if k.split(".")[0] in _RELATIVE_TOP]:
        del sys.modules[k]
    if any(e in ("run", "run-file") and _BIGNUM.search(t) for e, t in hist):
        raise Skip()  # see `strings`: honest execution cost is unbounded in the size of the numbers
    for entry, text in hist:
        try:
            with step_budget(5000 * (len(text) + 100) + 10**6):
                o = pristine.outcome(entry, text)
        except BudgetExceeded:
            raise Violation("nontermination", f"entry {entry}\n--- text:\n{text!r}", where=entry)
        outcomes.append(o)
    for i, ((entry, text), o) in enumerate(zip(hist, outcomes)):
        want = _pristine(entry, text)
        if _norm(o) != _norm(want):
            before = [(e, t[:40]) for e, t in hist[:i]]
            where = f"{entry}:{want[1] if want[0]=='err' else 'ok'}->{o[1] if o[0]=='err' else 'ok'}"
            if _bare_name_after_relative(hist, i, want):
                # one root cause, whatever the entry point and whatever happens after the
                # import wrongly succeeds: named as such so that it is one signature
                where = "absolute-import-of-bare-name-after-relative-import"
            raise Violation(
                "outcome-depends-on-history",
                f"call {i} ({entry}) in-process: {o[:4]}\npristine interpreter: {want[:4]}\nprocessed before: {before}\n--- text:\n{text!r}",
                where=where,
            )
    kinds = [o[0] for o in outcomes]
    interleaved = any(a != b for a, b in zip(kinds, kinds[1:]))
    return {"nontrivial": interleaved, "classes": ["len:%d" % len(hist)] + sorted({"entry:" + e for e, _t in hist}), "key": repr(hist), "sample": {"history": [[e, t[:80]] for e, t in hist], "outcomes": [o[:2] for o in outcomes]}}


_RELATIVE_TOP = ("moda", "modb", "pkgc", "pkgd", "alt")


def _bare_name_after_relative(hist, i, want):
    """Call i names, ABSOLUTELY, a bare module name that is not importable (pristine says
    ModuleNotFoundError for exactly that name) and an earlier call imported the same name
    RELATIVELY: the recorded finding (a relative import registers the bare name in sys.modules)."""
    if want[0] != "err" or want[1] != "ModuleNotFoundError":
        return False
    m = re.match(r"No module named '([A-Za-z0-9_]+)'", str(want[3]))
    if not m or m.group(1) not in _RELATIVE_TOP:
        return False
    top = m.group(1)
    mods = _USEP.findall(hist[i][1])
    if not any(x == top or x.startswith(top + ".") for x in mods):
        return False
    for e, t in hist[:i]:
        if e in IMPORTING and any(x == "." + top or x.startswith("." + top + ".") for x in _USEP.findall(t)):
            return True
    return False


def _norm(o):
    # object reprs may contain addresses
    return [re.sub(r"0x[0-9a-f]+", "0x", str(x)) for x in o]


def parts():
    return [
        Part("strings", gen.cases(_string_case), strings, quick=8000, thorough=250000, min_nontrivial=0.3),
        Part("histories", gen.cases(_history_case), histories, quick=400, thorough=6000, min_nontrivial=0.3, shards=8),
    ]
