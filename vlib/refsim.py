"""Independent ideal state-vector simulator (no jaqalpaq import, shares no index arithmetic
with jaqalpaq.emulator.unitary).

Convention (property C03/C15): bit i of a state index = register qubit i; bit j of a gate
matrix index = the gate's j-th qubit argument.

State = rank-n tensor T[b_{n-1}, ..., b_1, b_0] (axis for qubit i is n-1-i), so that C-order
flattening gives index = sum b_i 2^i.  A k-qubit matrix M[r, c] is reshaped to rank 2k with
axes (r_{k-1}..r_0, c_{k-1}..c_0) and contracted with numpy.einsum on the argument axes.
"""

import numpy as np

_LET = "abcdefghijklmnopqrstuvwxyzABCDEFGHIJKLMNOPQRSTUVWXYZ"


def zero_state(n):
    t = np.zeros((2,) * n, dtype=complex)
    t[(0,) * n] = 1.0
    return t


def apply(state, matrix, qubits):
    """Apply `matrix` (2^k x 2^k, bit j = qubits[j]) to the rank-n tensor `state`."""
    n = state.ndim
    k = len(qubits)
    if k == 0:
        return state * matrix.reshape(())
    m = np.asarray(matrix, dtype=complex).reshape((2,) * (2 * k))
    # axes of m: rows r_{k-1}..r_0 then cols c_{k-1}..c_0 ; r_j / c_j belong to qubits[j]
    state_sub = list(_LET[:n])
    out_sub = list(state_sub)
    row_sub = [None] * k
    col_sub = [None] * k
    for j, q in enumerate(qubits):
        ax = n - 1 - q
        new = _LET[n + j]
        col_sub[j] = state_sub[ax]
        row_sub[j] = new
        out_sub[ax] = new
    m_sub = "".join(row_sub[j] for j in reversed(range(k))) + "".join(col_sub[j] for j in reversed(range(k)))
    expr = f"{m_sub},{''.join(state_sub)}->{''.join(out_sub)}"
    return np.einsum(expr, m, state)


def flat(state):
    return state.reshape(-1)


def dense_operator(matrix, qubits, n):
    """Definitional construction (self-test only): the 2^n x 2^n operator acting as `matrix`
    on `qubits` (bit j = qubits[j]) and as identity elsewhere."""
    dim = 2**n
    k = len(qubits)
    op = np.zeros((dim, dim), dtype=complex)
    for col in range(dim):
        sub_c = sum(((col >> q) & 1) << j for j, q in enumerate(qubits))
        rest = col
        for q in qubits:
            rest &= ~(1 << q)
        for sub_r in range(2**k):
            row = rest
            for j, q in enumerate(qubits):
                if (sub_r >> j) & 1:
                    row |= 1 << q
            op[row, col] += matrix[sub_r, sub_c]
    return op
