"""Hypothesis strategies for Jaqal programs (Prog), numbers, layouts and overrides.

Constructive: programs are built valid (names resolve, indices in range, legal nesting, per-name
gate arity) instead of being filtered.  Every random choice goes through `draw`.
"""

import math
from dataclasses import dataclass, field

from hypothesis import strategies as st

from .model import Ref, Invalid, is_int, KEYWORDS

# ------------------------------------------------------------------------------ numbers

_FLOAT_CLASSES = [
    st.sampled_from([0.25, 0.5, 1.5, -0.75, 3.141592653589793, 0.1, 1.0 / 3.0, 2.718281828459045]),
    st.sampled_from([2.0, -3.0, 0.0, -0.0, 1.0, 100.0, 1e15]),  # integral
    st.sampled_from([1e-06, 1e-05, 1e16, 1e22, -1e-07, 1e100, 1e-300, 5e-324, 1e300]),  # exponent, integer mantissa
    st.sampled_from([1.5e-07, 2.5e-05, -6.02e23, 1.7976931348623157e308, 2.2250738585072014e-308, 4.9e-320]),
    st.floats(allow_nan=False, allow_infinity=False),
    st.floats(min_value=-10, max_value=10, allow_nan=False),
    st.floats(min_value=-1e-3, max_value=1e-3, allow_nan=False),
]


def floats():
    return st.one_of(*_FLOAT_CLASSES)


def ints():
    return st.one_of(
        st.integers(min_value=-5, max_value=12),
        st.integers(min_value=-(10**6), max_value=10**6),
        st.sampled_from([2**31, 2**63, 2**64 + 1, -(2**63) - 1, 10**25, -(10**30)]),
        st.integers(),
    )


def numbers():
    return st.one_of(ints(), floats())


def float_class(v):
    """Which repr class a float literal falls in (used for non-triviality labels)."""
    if is_int(v):
        return "int-big" if abs(v) >= 2**63 else "int"
    r = repr(v)
    if "e" in r:
        mant = r.split("e")[0]
        return "exp-intmant" if "." not in mant else "exp-fracmant"
    if v == int(v):
        return "float-integral"
    return "float-plain"


# ------------------------------------------------------------------------------ names

LET_POOL = ["a", "b", "c", "n", "k", "x", "y", "th", "pi2", "i", "j"]
REG_POOL = ["q", "r", "reg", "Q"]
MAP_POOL = ["u", "v", "w", "t", "s", "z", "aa", "bb"]
MACRO_POOL = ["m0", "m1", "m2", "F", "G", "H", "foo", "bar"]
PARAM_POOL = ["p", "o", "e", "f", "d"]
GATE_POOL = ["g", "h", "Rx", "MS", "X", "Sx", "gate.with.dots", "G_1"]
PULSE_POOL = ["qscout.v1.std", "a.b", "mod", ".local", ".x.y", "pkg.sub.mod"]


@dataclass
class Cfg:
    natives: dict = None  # name -> list of kinds ('q','f','i'); None = anonymous gates
    usepulses: bool = True
    max_lets: int = 4
    max_maps: int = 4
    max_macros: int = 3
    max_body: int = 5
    max_block: int = 4
    max_depth: int = 4
    max_reg: int = 6
    count_max: int = 3
    sub: bool = True
    par: bool = True
    loop: bool = True
    reg_args: bool = True  # whole registers / lets as anonymous gate args
    shadow: float = 0.5  # probability a parameter name is drawn from header names
    general_numbers: bool = True  # full literal mixture (else small numbers only)
    let_counts: bool = True
    macro_bias: int = 2  # a gate statement is a macro call with probability 1/(macro_bias+1)


@dataclass
class Scope:
    """What names mean at a program point, with the facts needed to stay valid."""

    lets: dict = field(default_factory=dict)  # name -> value
    regs: dict = field(default_factory=dict)  # register-like name -> tuple of fundamental idx
    singles: dict = field(default_factory=dict)  # single-qubit alias -> fundamental idx
    params: dict = field(default_factory=dict)  # name -> (role, constraint)
    macros: list = field(default_factory=list)  # [(name, [(role, constraint)...], has_sub)]
    sigs: dict = field(default_factory=dict)  # gate name -> list of kinds (fixed at first use)

    def visible(self, name):
        return name not in self.params


def _small_num(draw, cfg):
    if cfg.general_numbers:
        return draw(numbers())
    return draw(st.one_of(st.integers(-3, 9), st.sampled_from([0.5, 0.25, 1.5, -0.75, 2.0])))


class Builder:
    def __init__(self, draw, cfg):
        self.draw = draw
        self.cfg = cfg
        self.sc = Scope()
        self.stats = {}

    def flag(self, k):
        self.stats[k] = self.stats.get(k, 0) + 1

    # -- header ---------------------------------------------------------------------
    def header(self, prog):
        d, cfg, sc = self.draw, self.cfg, self.sc
        if cfg.usepulses and d(st.integers(0, 3)) == 0:
            prog["usepulses"] = d(st.lists(st.sampled_from(PULSE_POOL), min_size=1, max_size=2, unique=True))
        nlets = d(st.integers(0, cfg.max_lets))
        names = d(st.lists(st.sampled_from(LET_POOL), min_size=nlets, max_size=nlets, unique=True))
        for n in names:
            if d(st.integers(0, 9)) < 6:
                v = d(st.integers(0, 6))
            else:
                v = _small_num(d, cfg)
            prog["lets"].append([n, v])
            vv = int(v) if isinstance(v, float) and math.isfinite(v) and v == int(v) else v
            sc.lets[n] = vv
        rname = d(st.sampled_from(REG_POOL))
        size = d(st.integers(1, cfg.max_reg))
        cands = [n for n, v in sc.lets.items() if is_int(v) and 1 <= v <= cfg.max_reg]
        if cands and d(st.integers(0, 2)) == 0:
            ln = d(st.sampled_from(cands))
            prog["reg"] = [rname, ln]
            size = sc.lets[ln]
            self.flag("reg-let-size")
        else:
            prog["reg"] = [rname, size]
        sc.regs[rname] = tuple(range(size))
        nmaps = d(st.integers(0, cfg.max_maps))
        mnames = d(st.lists(st.sampled_from(MAP_POOL), min_size=nmaps, max_size=nmaps, unique=True))
        last = rname
        for mn in mnames:
            srcs = list(sc.regs)
            src = last if (last in sc.regs and d(st.booleans())) else d(st.sampled_from(srcs))
            el = sc.regs[src]
            form = d(st.sampled_from(["whole", "index", "slice", "slice"]))
            if form == "whole":
                prog["maps"].append([mn, src, None])
                sc.regs[mn] = el
            elif form == "index":
                i = d(st.integers(0, len(el) - 1))
                prog["maps"].append([mn, src, ["i", self.int_spelling(i)]])
                sc.singles[mn] = el[i]
            else:
                n = len(el)
                start = d(st.integers(0, n - 1))
                step = d(st.integers(1, 3))
                stop = d(st.integers(start + 1, n))
                new = tuple(el[i] for i in range(start, stop, step))
                s_start = self.int_spelling(start, default=(start == 0))
                s_stop = self.int_spelling(stop, default=(stop == n))
                s_step = self.int_spelling(step, default=(step == 1))
                prog["maps"].append([mn, src, ["s", s_start, s_stop, s_step]])
                sc.regs[mn] = new
                if step > 1:
                    self.flag("strided")
            last = mn

    def int_spelling(self, v, default=False):
        """An integer position: literal, a let with that value, or (if allowed) defaulted."""
        d = self.draw
        opts = ["lit"]
        lets = [n for n, x in self.sc.lets.items() if is_int(x) and x == v and self.sc.visible(n)]
        if lets:
            opts += ["let", "let"]
        if default:
            opts += ["def", "def"]
        c = d(st.sampled_from(opts))
        if c == "let":
            self.flag("let-in-int-position")
            return d(st.sampled_from(lets))
        if c == "def":
            self.flag("defaulted-bound")
            return None
        return v

    # -- arguments ------------------------------------------------------------------
    def qubit_arg(self):
        d, sc = self.draw, self.sc
        opts = []
        regs = [n for n in sc.regs if sc.visible(n)]
        singles = [n for n in sc.singles if sc.visible(n)]
        if regs:
            opts += ["reg", "reg"]
        if singles:
            opts.append("single")
        pq = [n for n, (role, _c) in sc.params.items() if role == "qubit"]
        pr = [n for n, (role, _c) in sc.params.items() if role == "reg"]
        pi = [n for n, (role, c) in sc.params.items() if role == "idx" and any(len(sc.regs[r]) >= c for r in regs)]
        if pq:
            opts += ["pq", "pq"]
        if pr:
            opts += ["pr", "pr"]
        if pi:
            opts += ["pi", "pi"]
        if not opts:
            return None
        c = d(st.sampled_from(opts))
        if c == "reg":
            r = d(st.sampled_from(regs))
            i = d(st.integers(0, len(sc.regs[r]) - 1))
            sp = self.int_spelling(i)
            return ["ix", r, sp]
        if c == "single":
            return ["id", d(st.sampled_from(singles))]
        if c == "pq":
            return ["id", d(st.sampled_from(pq))]
        if c == "pr":
            p = d(st.sampled_from(pr))
            i = d(st.integers(0, sc.params[p][1] - 1))
            self.flag("param-as-array")
            return ["ix", p, self.int_spelling(i)]
        p = d(st.sampled_from(pi))
        ok = [r for r in regs if len(sc.regs[r]) >= sc.params[p][1]]
        self.flag("param-as-index")
        return ["ix", d(st.sampled_from(ok)), p]

    def num_arg(self, integer=False):
        d, sc = self.draw, self.sc
        opts = ["lit", "lit"]
        lets = [n for n, v in sc.lets.items() if sc.visible(n) and (not integer or is_int(v))]
        if lets:
            opts.append("let")
        pn = [n for n, (role, _c) in sc.params.items() if role == "num" or (role in ("idx", "count"))]
        if integer:
            pn = [n for n in pn if sc.params[n][0] in ("idx", "count")]
        if pn:
            opts += ["param", "param"]
        c = d(st.sampled_from(opts))
        if c == "let":
            return ["id", d(st.sampled_from(lets))]
        if c == "param":
            return ["id", d(st.sampled_from(pn))]
        if integer:
            return ["n", d(ints()) if self.cfg.general_numbers else d(st.integers(-3, 9))]
        v = _small_num(d, self.cfg)
        return ["n", v]

    def reg_arg(self, minsize=1):
        d, sc = self.draw, self.sc
        cands = [n for n, el in sc.regs.items() if sc.visible(n) and len(el) >= minsize]
        cands += [n for n, (role, c) in sc.params.items() if role == "reg" and c >= minsize]
        if not cands:
            return None
        return ["id", d(st.sampled_from(cands))]

    def arg_of_kind(self, kind):
        if kind == "q":
            return self.qubit_arg()
        if kind == "f":
            return self.num_arg()
        if kind == "i":
            return self.num_arg(integer=True)
        if kind == "r":
            return self.reg_arg()
        raise ValueError(kind)

    def count(self):
        d, sc = self.draw, self.sc
        opts = ["lit", "lit"]
        lets = [n for n, v in sc.lets.items() if sc.visible(n) and is_int(v) and 0 <= v <= self.cfg.count_max]
        if lets and self.cfg.let_counts:
            opts += ["let"]
        pc = [n for n, (role, _c) in sc.params.items() if role == "count"]
        if pc:
            opts += ["param", "param"]
        c = d(st.sampled_from(opts))
        if c == "let":
            self.flag("let-count")
            return d(st.sampled_from(lets))
        if c == "param":
            self.flag("param-as-count")
            return d(st.sampled_from(pc))
        return d(st.integers(0, self.cfg.count_max))

    # -- statements -----------------------------------------------------------------
    def gate_sig(self, name):
        d, sc, cfg = self.draw, self.sc, self.cfg
        if cfg.natives is not None:
            return cfg.natives[name]
        if name not in sc.sigs:
            kinds = ["q", "q", "q", "f", "f"] + (["r"] if cfg.reg_args else [])
            sc.sigs[name] = d(st.lists(st.sampled_from(kinds), min_size=0, max_size=3))
        return sc.sigs[name]

    def gate_stmt(self, allow_sub_macros):
        d, sc, cfg = self.draw, self.sc, self.cfg
        macros = [m for m in sc.macros if allow_sub_macros or not m[2]]
        if macros and d(st.integers(0, cfg.macro_bias)) == 0:
            name, roles, _hs = d(st.sampled_from(macros))
            args = []
            for role, c in roles:
                a = self.macro_arg(role, c)
                if a is None:
                    return None
                args.append(a)
            self.flag("macro-call")
            return ["g", name, args]
        pool = list(cfg.natives) if cfg.natives is not None else GATE_POOL
        pool = [g for g in pool if g not in ("prepare_all", "measure_all")] or pool
        name = d(st.sampled_from(pool))
        args = []
        for k in self.gate_sig(name):
            a = self.arg_of_kind(k)
            if a is None:
                return None
            args.append(a)
        return ["g", name, args]

    def macro_arg(self, role, c):
        d, sc = self.draw, self.sc
        if role == "qubit":
            return self.qubit_arg()
        if role == "num":
            return self.num_arg()
        if role == "reg":
            return self.reg_arg(minsize=c)
        if role == "idx":
            opts = ["lit"]
            lets = [n for n, v in sc.lets.items() if sc.visible(n) and is_int(v) and 0 <= v < c]
            if lets:
                opts.append("let")
            pi = [n for n, (r2, c2) in sc.params.items() if r2 == "idx" and c2 <= c]
            if pi:
                opts += ["param", "param"]
            ch = d(st.sampled_from(opts))
            if ch == "let":
                return ["id", d(st.sampled_from(lets))]
            if ch == "param":
                return ["id", d(st.sampled_from(pi))]
            return ["n", d(st.integers(0, c - 1))]
        if role == "count":
            x = self.count()
            return ["n", x] if is_int(x) else ["id", x]
        raise ValueError(role)

    def block_items(self, ctx, depth, in_sub, in_par, n_max):
        """Statements legal inside ctx ('top' | 'seq' | 'par')."""
        d, cfg = self.draw, self.cfg
        n = d(st.integers(0, n_max))
        out = []
        for _ in range(n):
            kinds = ["gate", "gate", "gate"]
            if depth < cfg.max_depth:
                if ctx in ("top", "seq"):
                    if cfg.par:
                        kinds.append("par")
                    if cfg.loop:
                        kinds.append("loop")
                    if cfg.sub and not in_sub and not in_par:
                        kinds.append("sub")
                if ctx in ("top", "par"):
                    kinds.append("seq")
            k = d(st.sampled_from(kinds))
            if k == "gate":
                s = self.gate_stmt(allow_sub_macros=(not in_sub and not in_par and ctx != "par"))
                if s is not None:
                    out.append(s)
            elif k == "seq":
                out.append(["seq", self.block_items("seq", depth + 1, in_sub, in_par, cfg.max_block)])
            elif k == "par":
                out.append(["par", self.block_items("par", depth + 1, in_sub, True, cfg.max_block)])
            elif k == "loop":
                out.append(["loop", self.count(), self.block(depth + 1, in_sub, in_par)])
            elif k == "sub":
                cnt = None
                if d(st.booleans()):
                    cnt = self.count() if d(st.booleans()) else d(st.integers(0, 200))
                out.append(["sub", cnt, self.block_items("seq", depth + 1, True, in_par, cfg.max_block)])
                self.flag("subcircuit")
        return out

    def block(self, depth, in_sub, in_par):
        d, cfg = self.draw, self.cfg
        if cfg.par and d(st.integers(0, 3)) == 0:
            return ["par", self.block_items("par", depth, in_sub, True, cfg.max_block)]
        return ["seq", self.block_items("seq", depth, in_sub, in_par, cfg.max_block)]

    # -- macros ---------------------------------------------------------------------
    def macro(self, prog, name):
        d, cfg, sc = self.draw, self.cfg, self.sc
        np_ = d(st.integers(0, 3))
        header_names = list(sc.lets) + list(sc.regs) + list(sc.singles)
        params, roles = [], []
        maxreg = max(len(el) for el in sc.regs.values())
        for _ in range(np_):
            if header_names and d(st.floats(0, 1)) < cfg.shadow:
                pn = d(st.sampled_from(header_names))
                self.flag("param-shadows-header")
            else:
                pn = d(st.sampled_from(PARAM_POOL))
            if pn in params:
                continue
            role = d(st.sampled_from(["qubit", "qubit", "num", "reg", "idx", "count"]))
            c = None
            if role == "reg":
                c = d(st.integers(1, maxreg))
            elif role == "idx":
                c = d(st.integers(1, maxreg))
            params.append(pn)
            roles.append((role, c))
        saved = sc.params
        sc.params = dict(zip(params, roles))
        n_sub_before = self.stats.get("subcircuit", 0)
        calls_sub = [False]
        body = self.block(1, False, False)
        has_sub = self.stats.get("subcircuit", 0) > n_sub_before or _calls_sub_macro(body, sc.macros)
        sc.params = saved
        prog["macros"].append({"name": name, "params": params, "body": body})
        sc.macros.append((name, roles, has_sub))

    def build(self):
        from .model import empty_prog

        d, cfg = self.draw, self.cfg
        prog = empty_prog()
        self.header(prog)
        nm = d(st.integers(0, cfg.max_macros))
        mnames = d(st.lists(st.sampled_from(MACRO_POOL), min_size=nm, max_size=nm, unique=True))
        for mn in mnames:
            self.macro(prog, mn)
        prog["body"] = self.block_items("top", 0, False, False, cfg.max_body)
        return prog


def _calls_sub_macro(stmt, macros):
    subm = {m[0] for m in macros if m[2]}
    from .model import walk

    return any(s[0] == "g" and s[1] in subm for s in walk([stmt]))


def progs(cfg=None):
    cfg = cfg or Cfg()

    @st.composite
    def _p(draw):
        b = Builder(draw, cfg)
        prog = b.build()
        return {"prog": prog, "stats": b.stats}

    return _p()


# ------------------------------------------------------------------------------ overrides


def int_position_lets(prog, natives=None):
    """Names of lets that occur in an integer position (index, size, bound, count, or an
    argument of a native gate parameter declared INT)."""
    from .model import all_stmts

    lets = {n for n, _ in prog["lets"]}
    used = set()
    if natives:
        for s in all_stmts(prog):
            if s[0] == "g" and s[1] in natives:
                for a, k in zip(s[2], natives[s[1]]):
                    if k == "i" and a[0] == "id":
                        used.add(a[1])
    if prog["reg"] and isinstance(prog["reg"][1], str):
        used.add(prog["reg"][1])
    for _n, _src, sel in prog["maps"]:
        if sel:
            for x in sel[1:]:
                if isinstance(x, str):
                    used.add(x)
    for s in all_stmts(prog):
        if s[0] == "g":
            for a in s[2]:
                if a[0] == "ix" and isinstance(a[2], str):
                    used.add(a[2])
        elif s[0] in ("loop", "sub") and isinstance(s[1], str):
            used.add(s[1])
    # lets passed to macro parameters may reach integer positions: treat any let used as a
    # macro-call argument as potentially integer-positioned
    mnames = {m["name"] for m in prog["macros"]}
    for s in all_stmts(prog):
        if s[0] == "g" and s[1] in mnames:
            for a in s[2]:
                if a[0] == "id":
                    used.add(a[1])
    return used & lets


def overrides(draw, prog, natives=None):
    """Draw an override dictionary over a subset of the lets that keeps the program valid
    (decided by the reference semantics); invalid candidates are dropped key by key."""
    lets = [n for n, _ in prog["lets"]]
    if not lets:
        return {}
    intpos = int_position_lets(prog, natives)
    chosen = draw(st.lists(st.sampled_from(lets), unique=True, max_size=len(lets)))
    env = {}
    for n in chosen:
        if n in intpos:
            env[n] = draw(st.integers(0, 7))
        else:
            env[n] = draw(st.one_of(st.integers(-4, 9), st.sampled_from([0.5, -1.25, 3.0, 1e-06, 2.5e-05]), floats()))
    for n in list(env):
        try:
            Ref(prog, env).validate()
        except Invalid:
            del env[n]
    try:
        Ref(prog, env).validate()
    except Invalid:
        env = {}
    return env
