"""Generators for Jaqal programs (Prog), numbers, overrides.

Constructive: programs are built valid (names resolve, indices in range, legal nesting, per-name
gate arity) instead of being filtered.

Randomness: Hypothesis draws one 63-bit seed per case (so case count, `@seed(VERIF_SEED)`,
de-duplication and health checks stay with the library) and the structure is expanded from it
with a `random.Random(seed)` owned by the case.  Reason (measured, see DESIGN.md section 8):
for a generator that makes hundreds of draws Hypothesis spends ~10 ms per case and fills the tail
of about half of all cases with "simplest" choices (zero-extension of a short novel prefix), so
values drawn late - bodies, histories, layouts, override choices - were minimal in 60-75 % of the
cases.  Shrinking and replay do not depend on the RNG: the generated case itself (JSON) is what
the harness shrinks structurally and stores in the replay file.
"""

import math
import random
import struct
from dataclasses import dataclass, field

from hypothesis import strategies as st

from .model import Ref, Invalid, is_int, KEYWORDS, empty_prog, walk, all_stmts

SEEDS = st.integers(min_value=0, max_value=2**63 - 1)

# ------------------------------------------------------------------------------ chooser

_F_PLAIN = [0.25, 0.5, 1.5, -0.75, 3.141592653589793, 0.1, 1.0 / 3.0, 2.718281828459045]
_F_INTEGRAL = [2.0, -3.0, 0.0, -0.0, 1.0, 100.0, 1e15]
_F_EXP_INT = [1e-06, 1e-05, 1e16, 1e22, -1e-07, 1e100, 1e-300, 5e-324, 1e300]
_F_EXP_FRAC = [1.5e-07, 2.5e-05, -6.02e23, 1.7976931348623157e308, 2.2250738585072014e-308, 4.9e-320]
_I_BIG = [2**31, 2**63, 2**64 + 1, -(2**63) - 1, 10**25, -(10**30), 2**53, 2**53 + 1]
# numbers that CPython hashes alike although they differ (hash(-1) == hash(-2), hash(2**61-1) == hash(0))
_HASH_TWINS = {-1: -2, -2: -1, -1.0: -2.0, -2.0: -1.0, 0: 2**61 - 1, 2**61 - 1: 0, 1: 2**61, 2**61: 1}


class Chooser:
    """All random choices of one case; a pure function of the seed."""

    def __init__(self, seed):
        self.r = random.Random(seed)

    def int(self, a, b):
        return self.r.randint(a, b)

    def bool(self):
        return self.r.random() < 0.5

    def chance(self, p):
        return self.r.random() < p

    def pick(self, seq):
        return seq[self.r.randrange(len(seq))]

    def sample(self, pool, n):
        return self.r.sample(list(pool), n)

    def perm(self, n):
        p = list(range(n))
        self.r.shuffle(p)
        return p

    def ints(self, n, a, b):
        return [self.r.randint(a, b) for _ in range(n)]

    def any_float(self):
        while True:
            v = struct.unpack("<d", self.r.getrandbits(64).to_bytes(8, "little"))[0]
            if math.isfinite(v):
                return v

    def float(self):
        c = self.r.randrange(8)
        if c == 0:
            return self.pick(_F_PLAIN)
        if c == 1:
            return self.pick(_F_INTEGRAL)
        if c == 2:
            return self.pick(_F_EXP_INT)
        if c == 3:
            return self.pick(_F_EXP_FRAC)
        if c == 4:
            return self.any_float()
        if c == 5:
            return self.r.uniform(-10, 10)
        if c == 6:
            return self.r.uniform(-1e-3, 1e-3)
        return float(self.r.randint(-50, 50)) * 10.0 ** self.r.randint(-30, 30)

    def integer(self):
        c = self.r.randrange(6)
        if c < 3:
            return self.r.randint(-5, 12)
        if c == 3:
            return self.r.randint(-(10**6), 10**6)
        if c == 4:
            return self.pick(_I_BIG)
        return self.r.randint(-(2**80), 2**80)

    def number(self):
        return self.integer() if self.bool() else self.float()

    def ident(self):
        """A random legal identifier ([a-zA-Z_][a-zA-Z0-9_]*, not a keyword)."""
        first = "abcdefghijklmnopqrstuvwxyzABCDEFGHIJKLMNOPQRSTUVWXYZ_"
        rest = first + "0123456789"
        while True:
            n = self.r.choice([1, 2, 3, 5, 9, 24])
            s = self.r.choice(first) + "".join(self.r.choice(rest) for _ in range(n - 1))
            if self.r.random() < 0.3:
                s = self.r.choice(["loop", "let", "map", "register", "macro", "from", "as", "subcircuit", "branch", "e", "E", "x0"]) + s
            x = self.r.random()
            if x < 0.08:
                # a keyword is only a keyword as a WHOLE identifier: `loop.fast`, `let.x`, `a.from`
                s = self.r.choice(sorted(KEYWORDS)) + "." + s
            elif x < 0.12:
                s = s + "." + self.r.choice(sorted(KEYWORDS))
            while self.r.random() < 0.12:
                # the identifier token only restricts its FIRST character: parts after a dot
                # may begin with a digit (`a.1`, `q.0x`)
                s += "." + "".join(self.r.choice(rest) for _ in range(self.r.choice([1, 1, 2, 4])))
            if s not in KEYWORDS and s != "version":
                return s

    def names(self, pool, n, taken=(), p_random=0.15):
        """n distinct names: mostly from the small pool (so collisions/shadowing stay frequent),
        sometimes random legal identifiers."""
        out = []
        avail = [x for x in pool if x not in taken]
        self.r.shuffle(avail)
        while len(out) < n:
            if avail and self.r.random() >= p_random:
                c = avail.pop()
            else:
                c = self.ident()
            if c not in out and c not in taken:
                out.append(c)
        return out

    def small_number(self):
        x = self.r.random()
        if x < 0.5:
            return self.r.randint(-3, 9)
        if x < 0.65:
            return self.pick([-1, -2, -1, -2, 0, 1, -1.0, -2.0])
        return self.pick([0.5, 0.25, 1.5, -0.75, 2.0])


def float_class(v):
    """Which repr class a numeric literal falls in (used for non-triviality labels)."""
    if is_int(v):
        return "int-big" if abs(v) >= 2**63 else "int"
    r = repr(v)
    if "e" in r:
        mant = r.split("e")[0]
        return "exp-intmant" if "." not in mant else "exp-fracmant"
    if v == int(v):
        return "float-integral"
    return "float-plain"


# ------------------------------------------------------------------------------ names

LET_POOL = ["a", "b", "c", "n", "k", "x", "y", "th", "pi2", "i", "j"]
REG_POOL = ["q", "r", "reg", "Q"]
MAP_POOL = ["u", "v", "w", "t", "s", "z", "aa", "bb"]
MACRO_POOL = ["m0", "m1", "m2", "F", "G", "H", "foo", "bar"]
PARAM_POOL = ["p", "o", "e", "f", "d", "self", "args"]  # legal identifiers that are special to Python, not to Jaqal
GATE_POOL = ["g", "h", "Rx", "MS", "X", "Sx", "gate.with.dots", "G_1", "g.1", "loop.fast"]
PULSE_POOL = ["qscout.v1.std", "a.b", "mod", ".local", ".x.y", "pkg.sub.mod", "pkg.2x", ".cal.2024_a"]


@dataclass
class Cfg:
    natives: dict = None  # name -> list of kinds ('q','f','i'); None = anonymous gates
    usepulses: bool = True
    max_lets: int = 4
    max_maps: int = 4
    max_macros: int = 3
    max_body: int = 5
    max_block: int = 4
    max_depth: int = 4
    max_reg: int = 6
    count_max: int = 3
    sub: bool = True
    par: bool = True
    loop: bool = True
    reg_args: bool = True  # whole registers / lets as anonymous gate args
    shadow: float = 0.5  # probability a parameter name is drawn from header names
    general_numbers: bool = True  # full literal mixture (else small numbers only)
    let_counts: bool = True
    macro_bias: int = 2  # a gate statement is a macro call with probability 1/(macro_bias+1)
    random_names: float = 0.15  # probability that a declared name is a random legal identifier
    duplicates: bool = True  # sometimes repeat a statement verbatim (or with a hash-twin number)


@dataclass
class Scope:
    """What names mean at a program point, with the facts needed to stay valid."""

    lets: dict = field(default_factory=dict)  # name -> value
    regs: dict = field(default_factory=dict)  # register-like name -> tuple of fundamental idx
    singles: dict = field(default_factory=dict)  # single-qubit alias -> fundamental idx
    params: dict = field(default_factory=dict)  # name -> (role, constraint)
    macros: list = field(default_factory=list)  # [(name, [(role, constraint)...], has_sub)]
    sigs: dict = field(default_factory=dict)  # gate name -> list of kinds (fixed at first use)

    def visible(self, name):
        return name not in self.params


class Builder:
    def __init__(self, ch, cfg):
        self.ch = ch
        self.cfg = cfg
        self.sc = Scope()
        self.stats = {}

    def flag(self, k):
        self.stats[k] = self.stats.get(k, 0) + 1

    def num(self):
        return self.ch.number() if self.cfg.general_numbers else self.ch.small_number()

    # -- header ---------------------------------------------------------------------
    def header(self, prog):
        ch, cfg, sc = self.ch, self.cfg, self.sc
        if cfg.usepulses and ch.int(0, 3) == 0:
            prog["usepulses"] = ch.sample(PULSE_POOL, ch.int(1, 2))
            if ch.int(0, 3) == 0:
                # the same module imported again (A, A / A, B, A): every import is a statement
                prog["usepulses"] = prog["usepulses"] + [prog["usepulses"][0]]
        for n in ch.names(LET_POOL, ch.int(0, cfg.max_lets), p_random=cfg.random_names):
            v = ch.int(0, 6) if ch.int(0, 9) < 6 else self.num()
            prog["lets"].append([n, v])
            sc.lets[n] = int(v) if isinstance(v, float) and math.isfinite(v) and v == int(v) else v
        rname = ch.names(REG_POOL, 1, taken=list(sc.lets), p_random=cfg.random_names)[0]
        size = ch.int(1, cfg.max_reg)
        cands = [n for n, v in sc.lets.items() if is_int(v) and 1 <= v <= cfg.max_reg]
        if cands and ch.int(0, 2) == 0:
            ln = ch.pick(cands)
            prog["reg"] = [rname, ln]
            size = sc.lets[ln]
            self.flag("reg-let-size")
        else:
            prog["reg"] = [rname, size]
        sc.regs[rname] = tuple(range(size))
        last = rname
        for mn in ch.names(MAP_POOL, ch.int(0, cfg.max_maps), taken=list(sc.lets) + [rname], p_random=cfg.random_names):
            src = last if (last in sc.regs and ch.bool()) else ch.pick(list(sc.regs))
            el = sc.regs[src]
            form = ch.pick(["whole", "index", "slice", "slice"])
            if form == "whole":
                prog["maps"].append([mn, src, None])
                sc.regs[mn] = el
            elif form == "index":
                i = ch.int(0, len(el) - 1)
                prog["maps"].append([mn, src, ["i", self.int_spelling(i)]])
                sc.singles[mn] = el[i]
            else:
                n = len(el)
                start = ch.int(0, n - 1)
                step = ch.int(1, 3)
                stop = ch.int(start + 1, n)
                new = tuple(el[i] for i in range(start, stop, step))
                s_start = self.int_spelling(start, default=(start == 0))
                s_stop = self.int_spelling(stop, default=(stop == n))
                s_step = self.int_spelling(step, default=(step == 1))
                prog["maps"].append([mn, src, ["s", s_start, s_stop, s_step]])
                sc.regs[mn] = new
                if step > 1:
                    self.flag("strided")
            last = mn

    def int_spelling(self, v, default=False):
        """An integer position: literal, a let with that value, or (if allowed) defaulted."""
        opts = ["lit"]
        lets = [n for n, x in self.sc.lets.items() if is_int(x) and x == v and self.sc.visible(n)]
        if lets:
            opts += ["let", "let"]
        if default:
            opts += ["def", "def"]
        c = self.ch.pick(opts)
        if c == "let":
            self.flag("let-in-int-position")
            return self.ch.pick(lets)
        if c == "def":
            self.flag("defaulted-bound")
            return None
        return v

    # -- arguments ------------------------------------------------------------------
    def qubit_arg(self):
        ch, sc = self.ch, self.sc
        opts = []
        regs = [n for n in sc.regs if sc.visible(n)]
        singles = [n for n in sc.singles if sc.visible(n)]
        if regs:
            opts += ["reg", "reg"]
        if singles:
            opts.append("single")
        pq = [n for n, (role, _c) in sc.params.items() if role == "qubit"]
        pr = [n for n, (role, _c) in sc.params.items() if role == "reg"]
        pi = [n for n, (role, c) in sc.params.items() if role == "idx" and any(len(sc.regs[r]) >= c for r in regs)]
        if pq:
            opts += ["pq", "pq"]
        if pr:
            opts += ["pr", "pr"]
        if pi:
            opts += ["pi", "pi"]
        if not opts:
            return None
        c = ch.pick(opts)
        if c == "reg":
            r = ch.pick(regs)
            i = ch.int(0, len(sc.regs[r]) - 1)
            return ["ix", r, self.int_spelling(i)]
        if c == "single":
            return ["id", ch.pick(singles)]
        if c == "pq":
            return ["id", ch.pick(pq)]
        if c == "pr":
            p = ch.pick(pr)
            i = ch.int(0, sc.params[p][1] - 1)
            self.flag("param-as-array")
            return ["ix", p, self.int_spelling(i)]
        p = ch.pick(pi)
        ok = [r for r in regs if len(sc.regs[r]) >= sc.params[p][1]]
        self.flag("param-as-index")
        return ["ix", ch.pick(ok), p]

    def num_arg(self, integer=False):
        ch, sc = self.ch, self.sc
        opts = ["lit", "lit"]
        lets = [n for n, v in sc.lets.items() if sc.visible(n) and (not integer or is_int(v))]
        if lets:
            opts.append("let")
        pn = [n for n, (role, _c) in sc.params.items() if role in ("num", "idx", "count")]
        if integer:
            pn = [n for n in pn if sc.params[n][0] in ("idx", "count")]
        if pn:
            opts += ["param", "param"]
        c = ch.pick(opts)
        if c == "let":
            return ["id", ch.pick(lets)]
        if c == "param":
            return ["id", ch.pick(pn)]
        if integer:
            return ["n", ch.integer() if self.cfg.general_numbers else ch.int(-3, 9)]
        return ["n", self.num()]

    def reg_arg(self, minsize=1):
        sc = self.sc
        cands = [n for n, el in sc.regs.items() if sc.visible(n) and len(el) >= minsize]
        cands += [n for n, (role, c) in sc.params.items() if role == "reg" and c >= minsize]
        if not cands:
            return None
        return ["id", self.ch.pick(cands)]

    def arg_of_kind(self, kind):
        if kind == "q":
            return self.qubit_arg()
        if kind == "f":
            return self.num_arg()
        if kind == "i":
            return self.num_arg(integer=True)
        if kind == "r":
            return self.reg_arg()
        raise ValueError(kind)

    def count(self):
        ch, sc = self.ch, self.sc
        opts = ["lit", "lit"]
        lets = [n for n, v in sc.lets.items() if sc.visible(n) and is_int(v) and 0 <= v <= self.cfg.count_max]
        if lets and self.cfg.let_counts:
            opts += ["let"]
        pc = [n for n, (role, _c) in sc.params.items() if role == "count"]
        if pc:
            opts += ["param", "param"]
        c = ch.pick(opts)
        if c == "let":
            self.flag("let-count")
            return ch.pick(lets)
        if c == "param":
            self.flag("param-as-count")
            return ch.pick(pc)
        return ch.int(0, self.cfg.count_max)

    # -- statements -----------------------------------------------------------------
    def gate_sig(self, name):
        ch, sc, cfg = self.ch, self.sc, self.cfg
        if cfg.natives is not None:
            return cfg.natives[name]
        if name not in sc.sigs:
            kinds = ["q", "q", "q", "f", "f"] + (["r"] if cfg.reg_args else [])
            sc.sigs[name] = [ch.pick(kinds) for _ in range(ch.int(0, 3))]
        return sc.sigs[name]

    def gate_stmt(self, allow_sub_macros):
        ch, sc, cfg = self.ch, self.sc, self.cfg
        macros = [m for m in sc.macros if allow_sub_macros or not m[2]]
        if macros and ch.int(0, cfg.macro_bias) == 0:
            name, roles, _hs = ch.pick(macros)
            args = []
            for role, c in roles:
                a = self.macro_arg(role, c)
                if a is None:
                    return None
                args.append(a)
            self.flag("macro-call")
            return ["g", name, args]
        pool = list(cfg.natives) if cfg.natives is not None else GATE_POOL
        pool = [g for g in pool if g not in ("prepare_all", "measure_all")] or pool
        name = ch.pick(pool)
        args = []
        for k in self.gate_sig(name):
            a = self.arg_of_kind(k)
            if a is None:
                return None
            args.append(a)
        return ["g", name, args]

    def macro_arg(self, role, c):
        ch, sc = self.ch, self.sc
        if role == "qubit":
            return self.qubit_arg()
        if role == "num":
            return self.num_arg()
        if role == "reg":
            return self.reg_arg(minsize=c)
        if role == "idx":
            opts = ["lit"]
            lets = [n for n, v in sc.lets.items() if sc.visible(n) and is_int(v) and 0 <= v < c]
            if lets:
                opts.append("let")
            pi = [n for n, (r2, c2) in sc.params.items() if r2 == "idx" and c2 <= c]
            if pi:
                opts += ["param", "param"]
            k = ch.pick(opts)
            if k == "let":
                return ["id", ch.pick(lets)]
            if k == "param":
                return ["id", ch.pick(pi)]
            i = ch.int(0, c - 1)
            if ch.int(0, 7) == 0:
                self.flag("integral-float-macro-argument")
                return ["n", float(i)]  # `m 1.0`: an integral float is a legal index / count value
            return ["n", i]
        if role == "count":
            x = self.count()
            if is_int(x) and ch.int(0, 7) == 0:
                self.flag("integral-float-macro-argument")
                return ["n", float(x)]
            return ["n", x] if is_int(x) else ["id", x]
        raise ValueError(role)

    def block_items(self, ctx, depth, in_sub, in_par, n_max):
        """Statements legal inside ctx ('top' | 'seq' | 'par')."""
        ch, cfg = self.ch, self.cfg
        out = []
        for _ in range(ch.int(0, n_max)):
            kinds = ["gate", "gate", "gate"]
            if depth < cfg.max_depth:
                if ctx in ("top", "seq"):
                    if cfg.par:
                        kinds.append("par")
                    if cfg.loop:
                        kinds.append("loop")
                    if cfg.sub and not in_sub and not in_par:
                        kinds.append("sub")
                if ctx in ("top", "par"):
                    kinds.append("seq")
            k = ch.pick(kinds)
            if k == "gate":
                s = self.gate_stmt(allow_sub_macros=(not in_sub and not in_par and ctx != "par"))
                if s is not None:
                    out.append(s)
            elif k == "seq":
                out.append(["seq", self.block_items("seq", depth + 1, in_sub, in_par, cfg.max_block)])
            elif k == "par":
                out.append(["par", self.block_items("par", depth + 1, in_sub, True, cfg.max_block)])
            elif k == "loop":
                out.append(["loop", self.count(), self.block(depth + 1, in_sub, in_par)])
            elif k == "sub":
                cnt = None
                if ch.bool():
                    cnt = self.count() if ch.bool() else ch.int(0, 200)
                out.append(["sub", cnt, self.block_items("seq", depth + 1, True, in_par, cfg.max_block)])
                self.flag("subcircuit")
            if out and cfg.duplicates and ch.int(0, 9) == 0:
                # a textual twin right next to a statement (caches, fusing and de-duplication
                # show only then), possibly differing in one number by a hash-colliding partner
                import copy

                twin = copy.deepcopy(out[-1])
                if twin[0] == "g":
                    nums = [a for a in twin[2] if a[0] == "n" and a[1] in _HASH_TWINS]
                    near = [a for a in twin[2] if a[0] == "n" and isinstance(a[1], float) and a[1] == a[1] and 1e-300 < abs(a[1]) < 1e300]
                    # not in macro calls: there the number may be an index or a loop count
                    # (an index of 2**61-1 is invalid, a count of 2**61 never finishes)
                    plain = twin[1] not in {m[0] for m in self.sc.macros}
                    if nums and ch.bool() and plain:
                        a = ch.pick(nums)
                        a[1] = _HASH_TWINS[a[1]]
                    elif near and ch.bool() and plain:
                        # ... or by a NEARBY number: one float step, or agreeing to 6-12 digits
                        import math

                        a = ch.pick(near)
                        k = ch.int(0, 3)
                        a[1] = math.nextafter(a[1], math.inf) if k == 0 else a[1] * (1 + ch.pick([1e-7, -1e-9, 1e-12]))
                        self.flag("near-twin-number")
                    out.append(twin)
                    self.flag("twin-statement")
                elif twin[0] == "loop" and ctx != "par":
                    if is_int(twin[1]) and ch.bool():
                        twin[1] = ch.int(0, cfg.count_max)
                    out.append(twin)
                    self.flag("twin-statement")
        return out

    def block(self, depth, in_sub, in_par):
        ch, cfg = self.ch, self.cfg
        if cfg.par and ch.int(0, 3) == 0:
            return ["par", self.block_items("par", depth, in_sub, True, cfg.max_block)]
        return ["seq", self.block_items("seq", depth, in_sub, in_par, cfg.max_block)]

    # -- macros ---------------------------------------------------------------------
    def macro(self, prog, name):
        ch, cfg, sc = self.ch, self.cfg, self.sc
        header_names = list(sc.lets) + list(sc.regs) + list(sc.singles)
        params, roles = [], []
        maxreg = max(len(el) for el in sc.regs.values())
        for _ in range(ch.int(0, 3)):
            if header_names and ch.chance(cfg.shadow):
                pn = ch.pick(header_names)
                self.flag("param-shadows-header")
            else:
                pn = ch.pick(PARAM_POOL)
            if pn in params:
                continue
            role = ch.pick(["qubit", "qubit", "num", "reg", "idx", "count"])
            c = ch.int(1, maxreg) if role in ("reg", "idx") else None
            params.append(pn)
            roles.append((role, c))
        saved = sc.params
        sc.params = dict(zip(params, roles))
        n_sub_before = self.stats.get("subcircuit", 0)
        body = self.block(1, False, False)
        has_sub = self.stats.get("subcircuit", 0) > n_sub_before or _calls_sub_macro(body, sc.macros)
        sc.params = saved
        prog["macros"].append({"name": name, "params": params, "body": body})
        sc.macros.append((name, roles, has_sub))

    def build(self):
        ch, cfg = self.ch, self.cfg
        prog = empty_prog()
        self.header(prog)
        for mn in ch.names(MACRO_POOL, ch.int(0, cfg.max_macros), taken=list(cfg.natives or ()) + (GATE_POOL if cfg.natives is None else []), p_random=cfg.random_names):
            self.macro(prog, mn)
        prog["body"] = self.block_items("top", 0, False, False, cfg.max_body)
        return prog


def _calls_sub_macro(stmt, macros):
    subm = {m[0] for m in macros if m[2]}
    return any(s[0] == "g" and s[1] in subm for s in walk([stmt]))


def make_prog(ch, cfg=None):
    b = Builder(ch, cfg or Cfg())
    return b.build(), b


def progs(cfg=None):
    """Strategy of {"prog": Prog, "stats": {...}}."""
    cfg = cfg or Cfg()

    def mk(seed):
        prog, b = make_prog(Chooser(seed), cfg)
        return {"prog": prog, "stats": b.stats}

    return SEEDS.map(mk)


def cases(fn):
    """Strategy from a function fn(ch: Chooser) -> JSON case."""
    return SEEDS.map(lambda seed: fn(Chooser(seed)))


# ------------------------------------------------------------------------------ overrides


def int_position_lets(prog, natives=None):
    """Names of lets that occur in an integer position (index, size, bound, count, or an
    argument of a native gate parameter declared INT)."""
    lets = {n for n, _ in prog["lets"]}
    used = set()
    if natives:
        for s in all_stmts(prog):
            if s[0] == "g" and s[1] in natives:
                for a, k in zip(s[2], natives[s[1]]):
                    if k == "i" and a[0] == "id":
                        used.add(a[1])
    if prog["reg"] and isinstance(prog["reg"][1], str):
        used.add(prog["reg"][1])
    for _n, _src, sel in prog["maps"]:
        if sel:
            for x in sel[1:]:
                if isinstance(x, str):
                    used.add(x)
    for s in all_stmts(prog):
        if s[0] == "g":
            for a in s[2]:
                if a[0] == "ix" and isinstance(a[2], str):
                    used.add(a[2])
        elif s[0] in ("loop", "sub") and isinstance(s[1], str):
            used.add(s[1])
    # lets passed to macro parameters may reach integer positions
    mnames = {m["name"] for m in prog["macros"]}
    for s in all_stmts(prog):
        if s[0] == "g" and s[1] in mnames:
            for a in s[2]:
                if a[0] == "id":
                    used.add(a[1])
    return used & lets


def overrides(ch, prog, natives=None, wide=True):
    """An override dictionary over a subset of the lets that keeps the program valid
    (decided by the reference semantics); invalid candidates are dropped key by key."""
    lets = [n for n, _ in prog["lets"]]
    if not lets:
        return {}
    intpos = int_position_lets(prog, natives)
    env = {}
    for n in lets:
        if not ch.bool():
            continue
        if n in intpos:
            declared = dict((a, b) for a, b in prog["lets"])[n]
            near = [declared + 1, declared - 1, declared + 2] if is_int(declared) else []
            env[n] = ch.pick(near + near + [ch.int(0, 7)]) if near else ch.int(0, 7)
            if not is_int(env[n]) or env[n] < 0:
                env[n] = ch.int(0, 7)
            if ch.int(0, 3) == 0:
                env[n] = float(env[n])  # override dictionaries are documented as dict[str, float]
        else:
            env[n] = ch.pick([ch.int(-4, 9), ch.pick([0.5, -1.25, 3.0, 1e-06, 2.5e-05]), ch.float() if wide else ch.small_number()])
    for n in list(env):
        try:
            Ref(prog, env).validate()
        except Invalid:
            del env[n]
    try:
        Ref(prog, env).validate()
        if env and frozen_default_risk(prog, env):
            env = {}
    except Invalid:
        env = {}
    return env


def frozen_default_risk(prog, env):
    """The builder fixes a DEFAULTED slice stop of an alias whose source is itself an alias at
    parse time (stop = current size of the source under the declared let values).  An override
    that resizes that source makes the parsed circuit and the program text disagree; no listed
    property speaks about that (DESIGN.md 8.1), so such overrides are not generated."""
    if not prog["reg"]:
        return False
    regname = prog["reg"][0]
    try:
        r0, r1 = Ref(prog, {}), Ref(prog, env)
    except Invalid:
        return False  # not a valid program under one of the environments: nothing to freeze
    by_name = {m[0]: m for m in prog["maps"]}

    def sliced(name):
        # a WHOLE alias (map b q) hands the let-valued size of its source on; only a source
        # that is, somewhere down the chain, a slice has a size computed at parse time
        m_ = by_name.get(name)
        if m_ is None:
            return False
        return True if m_[2] is not None else sliced(m_[1])

    for m in prog["maps"]:
        sel = m[2]
        if sel and sel[0] == "s" and sel[2] is None and m[1] != regname and sliced(m[1]):
            if len(r0.elems(m[1])[1]) != len(r1.elems(m[1])[1]):
                return True
    return False
