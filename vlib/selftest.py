"""Reference self-tests (run by setup.sh, seconds): the references must agree with themselves
before anything is judged against them.

1. refsim einsum application == definitional dense operator on random gates/qubit tuples.
2. refgrammar: Earley recognizer and recursive-descent parser agree on accept/reject for
   generated token streams and their mutations.
3. model: reference meaning of hand-written programs equals hand-written expectations.
"""
import random
import sys

import numpy as np

from . import gen, refgrammar, refsim, render
from .model import Ref, same_meaning, norm


def test_refsim(n_cases=300):
    rng = np.random.default_rng(5)
    r = random.Random(5)
    for _ in range(n_cases):
        n = r.randint(1, 5)
        k = r.randint(1, min(3, n))
        qs = r.sample(range(n), k)
        m = rng.normal(size=(2**k, 2**k)) + 1j * rng.normal(size=(2**k, 2**k))
        v = rng.normal(size=2**n) + 1j * rng.normal(size=2**n)
        state = v.reshape((2,) * n)
        got = refsim.flat(refsim.apply(state, m, qs))
        want = refsim.dense_operator(m, qs, n) @ v
        assert np.allclose(got, want, atol=1e-12), (n, qs)
    # bit order: X on qubit i of |0..0> gives index 1<<i
    x = np.array([[0, 1], [1, 0]], dtype=complex)
    for n in range(1, 6):
        for i in range(n):
            s = refsim.flat(refsim.apply(refsim.zero_state(n), x, [i]))
            assert abs(s[1 << i] - 1) < 1e-12
    return n_cases


def test_refgrammar(n_cases=1500):
    from .checks import c02

    agree = 0
    for seed in range(n_cases):
        ch = gen.Chooser(seed)
        case = c02._nearmiss_case(ch)
        toks = c02._token_stream(case["prog"], case["seps"])
        for op, where, pool_i in case["muts"]:
            if not toks:
                break
            i = where % len(toks)
            if op == "delete":
                del toks[i]
            elif op == "duplicate":
                toks.insert(i, toks[i])
            elif op == "swap" and i + 1 < len(toks):
                toks[i], toks[i + 1] = toks[i + 1], toks[i]
            elif op == "replace":
                toks[i] = c02.POOL[pool_i]
            elif op == "insert":
                toks.insert(i, c02.POOL[pool_i])
        vt = c02._value_tokens(toks)
        acc, k = refgrammar.earley([x[0] for x in vt])
        st, _tree = refgrammar.rd_parse(vt)
        assert acc == (st == "ok"), ("Earley and recursive descent disagree", [t[1] for t in toks])
        agree += 1
    return agree


def test_model():
    prog = {
        "usepulses": [],
        "lets": [["n", 2], ["x", 0.5]],
        "reg": ["q", 4],
        "maps": [["a", "q", ["s", 1, 4, 2]], ["b", "a", ["i", 1]]],
        "macros": [{"name": "m", "params": ["p", "i"], "body": ["seq", [["g", "X", [["ix", "p", "i"]]], ["g", "R", [["id", "b"], ["id", "x"]]]]]}],
        "body": [["loop", "n", ["seq", [["g", "m", [["id", "a"], ["n", 0]]]]]], ["sub", 3, [["par", [["g", "X", [["ix", "q", "n"]]]]]]]],
    }
    m = Ref(prog).meaning()
    want = (
        "seq",
        (
            ("loop", 2, ("seq", (("g", "X", (("q", 1),)), ("g", "R", (("q", 3), ("num", 0.5)))))),
            ("sub", 3, (("g", "X", (("q", 2),)),)),
        ),
    )
    assert same_meaning(m, norm(want)), m
    m2 = Ref(prog, {"n": 1, "x": 2}).meaning()
    assert m2[1][0][1] == 1 and m2[1][0][2][1][1][2][1] == ("num", 2), m2
    text = render.to_text(prog)
    assert "map a q [ 1 : 4 : 2 ]" in text and "loop n {" in text
    return 1


def main():
    a = test_refsim()
    b = test_refgrammar()
    c = test_model()
    print(f"selftest ok: refsim {a} cases, refgrammar {b} streams, model {c} program")


if __name__ == "__main__":
    try:
        main()
    except AssertionError as e:
        print("SELFTEST FAILED:", e)
        sys.exit(2)
