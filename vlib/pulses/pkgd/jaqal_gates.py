from jaqalpaq.core import GateDefinition, Parameter, ParamType
from jaqalpaq.core.gatedef import BusyGateDefinition
import numpy as np


def _x():
    return np.array([[0, 1], [1, 0]], dtype=complex)


ALL_GATES = {
    "prepare_all": BusyGateDefinition("prepare_all"),
    "measure_all": BusyGateDefinition("measure_all"),
    "XD": GateDefinition("XD", [Parameter("a", ParamType.QUBIT), Parameter("t", ParamType.FLOAT)], ideal_unitary=lambda t: _x()),
}
