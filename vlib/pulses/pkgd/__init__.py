"""Pulse definitions as a package with a jaqal_gates SUBMODULE (the layout of qscout.v1.std)."""
