"""On-disk pulse-definition module A (used by C14/C16): GP takes ONE qubit."""
from jaqalpaq.core import GateDefinition, Parameter, ParamType
from jaqalpaq.core.gatedef import BusyGateDefinition
import numpy as np


def _x():
    return np.array([[0, 1], [1, 0]], dtype=complex)


class jaqal_gates:
    ALL_GATES = {
        "prepare_all": BusyGateDefinition("prepare_all"),
        "measure_all": BusyGateDefinition("measure_all"),
        "GP": GateDefinition("GP", [Parameter("a", ParamType.QUBIT)], ideal_unitary=_x),
        "XA": GateDefinition("XA", [Parameter("a", ParamType.QUBIT)], ideal_unitary=_x),
        # SP has the SAME signature in both modules but another unitary (X in moda, Z in modb)
        "SP": GateDefinition("SP", [Parameter("a", ParamType.QUBIT)], ideal_unitary=_x),
    }
