"""A DIFFERENT module also called `moda`, in another import directory (C16): GP takes TWO
qubits here and XA does not exist; relative imports must pick the module of the import path
in force, whatever was imported before."""
from jaqalpaq.core import GateDefinition, Parameter, ParamType
from jaqalpaq.core.gatedef import BusyGateDefinition
import numpy as np


def _x():
    return np.array([[0, 1], [1, 0]], dtype=complex)


def _swap():
    return np.array([[1, 0, 0, 0], [0, 0, 1, 0], [0, 1, 0, 0], [0, 0, 0, 1]], dtype=complex)


class jaqal_gates:
    ALL_GATES = {
        "prepare_all": BusyGateDefinition("prepare_all"),
        "measure_all": BusyGateDefinition("measure_all"),
        "GP": GateDefinition("GP", [Parameter("a", ParamType.QUBIT), Parameter("b", ParamType.QUBIT)], ideal_unitary=_swap),
        "XALT": GateDefinition("XALT", [Parameter("a", ParamType.QUBIT)], ideal_unitary=_x),
    }
