"""Pulse definitions as a package directory whose __init__ holds jaqal_gates (C16)."""
from jaqalpaq.core import GateDefinition, Parameter, ParamType
from jaqalpaq.core.gatedef import BusyGateDefinition
import numpy as np


def _x():
    return np.array([[0, 1], [1, 0]], dtype=complex)


class jaqal_gates:
    ALL_GATES = {
        "prepare_all": BusyGateDefinition("prepare_all"),
        "measure_all": BusyGateDefinition("measure_all"),
        "XC": GateDefinition("XC", [Parameter("a", ParamType.QUBIT)], ideal_unitary=_x),
    }
