"""The harness's full native gate set (vlib.gates.make_gates, set seed 0, with idle gates) as an
importable pulse module: `from vlib.pulses.full usepulses *` lets the TEXT entry points
(run_jaqal_string / run_jaqal_file) execute the same programs the circuit entry point gets with
inject_pulses."""
from vlib import gates as _gates


class jaqal_gates:
    ALL_GATES = _gates.make_gates(0, idle=True)
