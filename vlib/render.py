"""Prog -> Jaqal text (canonical or under a drawn layout), -> token stream, -> S-expression.

Independent of jaqalpaq: the text is produced from the grammar as the properties state it,
the S-expression from the builder's documented signatures (circuitbuilder.build docstring).
"""

from .model import is_int


def num_text(v, spelling=None):
    """A numeric literal the Jaqal grammar accepts: INT = [-+]?[0-9]+,
    NUMBER = [-+]?[0-9]*.[0-9]+([eE][-+]?[0-9]+)? (a NUMBER needs a dot)."""
    if is_int(v):
        s = str(v)
        if spelling == "plus" and v >= 0:
            s = "+" + s
        return s
    r = repr(float(v))
    if "e" in r or "E" in r:
        mant, exp = r.lower().split("e")
        if "." not in mant:
            mant += ".0"
        r = mant + "e" + exp
    elif "." not in r:
        r += ".0"
    if spelling == "plus" and not r.startswith("-"):
        r = "+" + r
    elif spelling == "nolead" and (r.startswith("0.") or r.startswith("-0.")):
        r = r.replace("0.", ".", 1)
    elif spelling == "trail" and "e" not in r:
        r = r + "0"
    elif spelling == "upper":
        r = r.upper()
    return r


# ------------------------------------------------------------------------------ tokens
# Token stream: list of (kind, text).  Kinds: "tok" ordinary token, "sep" sequential separator
# position (mandatory), "psep" parallel separator (mandatory), "pad" optional sequential padding
# position, "ppad" optional parallel padding position.


def _arg_tokens(a, spell=None):
    if a[0] == "n":
        return [("tok", num_text(a[1], spell))]
    if a[0] == "id":
        return [("tok", a[1])]
    return [("tok", a[1]), ("tok", "["), ("tok", str(a[2])), ("tok", "]")]


def _ival(x):
    return str(x)


def stmt_tokens(s, out):
    tag = s[0]
    if tag == "g":
        out.append(("tok", s[1]))
        for a in s[2]:
            out.extend(_arg_tokens(a))
    elif tag == "seq":
        out.append(("tok", "{"))
        _seq_body(s[1], out)
        out.append(("tok", "}"))
    elif tag == "par":
        out.append(("tok", "<"))
        out.append(("ppad", ""))
        for i, x in enumerate(s[1]):
            if i:
                out.append(("psep", ""))
            stmt_tokens(x, out)
        out.append(("ppad", ""))
        out.append(("tok", ">"))
    elif tag == "loop":
        out.append(("tok", "loop"))
        out.append(("tok", _ival(s[1])))
        stmt_tokens(s[2], out)
    elif tag == "sub":
        out.append(("tok", "subcircuit"))
        if s[1] is not None:
            out.append(("tok", _ival(s[1])))
        out.append(("tok", "{"))
        _seq_body(s[2], out)
        out.append(("tok", "}"))
    elif tag == "branch":
        out.append(("tok", "branch"))
        out.append(("tok", "{"))
        out.append(("pad", ""))
        for i, (state, blk) in enumerate(s[1]):
            if i:
                out.append(("sep", ""))
            out.append(("tok", "'" + state + "'"))
            out.append(("tok", ":"))
            stmt_tokens(blk, out)
        out.append(("pad", ""))
        out.append(("tok", "}"))
    else:
        raise ValueError(s)


def _seq_body(stmts, out):
    out.append(("pad", ""))
    for i, x in enumerate(stmts):
        if i:
            out.append(("sep", ""))
        stmt_tokens(x, out)
    out.append(("pad", ""))


def header_items(prog):
    """Header statements as token lists, in canonical order."""
    items = []
    for m in prog["usepulses"]:
        items.append([("tok", "from"), ("tok", m), ("tok", "usepulses"), ("tok", "*")])
    for n, v in prog["lets"]:
        items.append([("tok", "let"), ("tok", n), ("tok", num_text(v))])
    if prog["reg"] is not None:
        n, size = prog["reg"]
        items.append([("tok", "register"), ("tok", n), ("tok", "["), ("tok", _ival(size)), ("tok", "]")])
    for n, src, sel in prog["maps"]:
        t = [("tok", "map"), ("tok", n), ("tok", src)]
        if sel is not None:
            t.append(("tok", "["))
            if sel[0] == "i":
                t.append(("tok", _ival(sel[1])))
            else:
                _t, start, stop, step = sel
                if start is not None:
                    t.append(("tok", _ival(start)))
                t.append(("tok", ":"))
                if stop is not None:
                    t.append(("tok", _ival(stop)))
                if step is not None:
                    t.append(("tok", ":"))
                    t.append(("tok", _ival(step)))
            t.append(("tok", "]"))
        items.append(t)
    return items


def macro_tokens(m):
    t = [("tok", "macro"), ("tok", m["name"])] + [("tok", p) for p in m["params"]]
    stmt_tokens(m["body"], t)
    return t


def prog_tokens(prog):
    out = [("pad", "")]
    items = header_items(prog) + [macro_tokens(m) for m in prog["macros"]]
    for s in prog["body"]:
        t = []
        stmt_tokens(s, t)
        items.append(t)
    for i, it in enumerate(items):
        if i:
            out.append(("sep", ""))
        out.extend(it)
    out.append(("pad", ""))
    return out


def to_text(prog):
    """Canonical layout: newline separators, single spaces, no comments."""
    return tokens_to_text(prog_tokens(prog))


def tokens_to_text(toks, layout=None, offsets=None):
    """Render a token stream.  `layout` is None (canonical) or a callable
    layout(kind, position) -> str giving the text to emit at each separator/padding position
    and between ordinary tokens (kind "gap")."""
    parts = []
    prev_tok = False
    pos = 0
    for i, (kind, text) in enumerate(toks):
        if kind == "tok":
            if prev_tok:
                parts.append(" " if layout is None else layout("gap", i))
                pos += len(parts[-1])
            if offsets is not None:
                offsets.append(pos)
            parts.append(text)
            pos += len(text)
            prev_tok = True
        else:
            if layout is None:
                s = {"sep": "\n", "psep": "\n", "pad": "", "ppad": ""}[kind]
                if kind in ("pad", "ppad") and 0 < i < len(toks) - 1:
                    s = "\n"
            else:
                s = layout(kind, i)
            parts.append(s)
            pos += len(s)
            prev_tok = False
    return "".join(parts)


# ------------------------------------------------------------------------------ S-expression


def _sx_arg(a):
    if a[0] == "n":
        return a[1]
    if a[0] == "id":
        return a[1]
    return ("array_item", a[1], a[2])


def sx_stmt(s, parser_form=True):
    tag = s[0]
    if tag == "g":
        return ["gate", s[1]] + [_sx_arg(a) for a in s[2]]
    if tag == "seq":
        return ["sequential_block"] + [sx_stmt(x, parser_form) for x in s[1]]
    if tag == "par":
        return ["parallel_block"] + [sx_stmt(x, parser_form) for x in s[1]]
    if tag == "loop":
        return ["loop", s[1], sx_stmt(s[2], parser_form)]
    if tag == "sub":
        return ["subcircuit_block", "" if s[1] is None else s[1]] + [sx_stmt(x, parser_form) for x in s[2]]
    if tag == "branch":
        return ["branch"] + [["case", int(st, 2), sx_stmt(b, parser_form)] for st, b in s[1]]
    raise ValueError(s)


def to_sexpr(prog, parser_form=True):
    """The S-expression of the program.  parser_form=True is what parse_to_sexpression is
    documented to return (usepulses names as parsed identifiers are compared by str())."""
    sx = ["circuit"]
    for m in prog["usepulses"]:
        sx.append(["usepulses", m, "*"])
    for n, v in prog["lets"]:
        sx.append(["let", n, v])
    if prog["reg"] is not None:
        sx.append(["register", prog["reg"][0], prog["reg"][1]])
    for n, src, sel in prog["maps"]:
        if sel is None:
            sx.append(["map", n, src])
        elif sel[0] == "i":
            sx.append(["map", n, src, sel[1]])
        else:
            sx.append(["map", n, src, sel[1], sel[2], sel[3]])
    for m in prog["macros"]:
        sx.append(["macro", m["name"]] + list(m["params"]) + [sx_stmt(m["body"], parser_form)])
    for s in prog["body"]:
        sx.append(sx_stmt(s, parser_form))
    return sx


def plain(x):
    """Convert a parser S-expression (lists, tuples, deques, Identifier objects) to plain
    nested lists of primitives for comparison."""
    if isinstance(x, (list, tuple)) or type(x).__name__ == "deque":
        if type(x).__name__ == "Identifier":
            return ".".join(str(v) for v in x)
        return [plain(v) for v in x]
    return x
