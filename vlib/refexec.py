"""Reference execution semantics on top of vlib.model (no jaqalpaq import).

* expand(ref)        : macro-expanded, let-resolved tree with provenance ("culprit" = the
                       innermost main-body statement a node comes from)
* used(node, n)      : exact used-qubit set (busy gates = all qubits, idle gates = none)
* static_errors(..)  : gates with repeated qubits, parallel blocks with overlapping branches
* accept(tree)       : the flat-order prepare/measure bracket rules of property C12
* execute(tree, ...) : unrolled execution: the visit sequence (C08) and, with matrices, the
                       ideal state at every visit (C03)
* schedule(tree)     : unit-time lock-step schedule (C19)

Tree nodes:  ("g", name, vals, culprit) | ("seq", kids, culprit) | ("par", kids, culprit)
           | ("loop", n, kid, culprit) | ("sub", k, kids, culprit)
"""

from .model import Invalid

PREP, MEAS = "prepare_all", "measure_all"


def expand(ref, desugar=False):
    """Expanded tree of the main body (un-normalised)."""
    prog = ref.prog
    mnames = [m["name"] for m in prog["macros"]]

    def stmt(s, bindings, visible, culprit):
        if bindings is None:
            culprit = s
        tag = s[0]
        if tag == "g":
            name, args = s[1], s[2]
            vals = [ref.eval_arg(a, bindings) for a in args]
            if name in visible:
                m = ref.macros[name]
                if len(m["params"]) != len(vals):
                    raise Invalid("arity", f"macro {name}")
                inner = dict(zip(m["params"], vals))
                vis2 = set(mnames[: mnames.index(name)])
                return stmt(m["body"], inner, vis2, culprit)
            return ("g", name, tuple((k, pl) for k, pl, _d in vals), culprit)
        if tag in ("seq", "par"):
            return (tag, tuple(stmt(x, bindings, visible, culprit) for x in s[1]), culprit)
        if tag == "loop":
            n = ref._count(s[1], bindings, "loop count")
            return ("loop", n, stmt(s[2], bindings, visible, culprit), culprit)
        if tag == "sub":
            k = ref._count(s[1], bindings, "subcircuit count")
            kids = tuple(stmt(x, bindings, visible, culprit) for x in s[2])
            if desugar:
                return ("seq", (("g", PREP, (), culprit),) + kids + (("g", MEAS, (), culprit),), culprit)
            return ("sub", k, kids, culprit)
        raise ValueError(s)

    vis = set(mnames)
    return ("seq", tuple(stmt(x, None, vis, None) for x in prog["body"]), None)


def is_idle(name):
    return name.startswith("I_")


def gate_qubits(node):
    return [v[1] for v in node[2] if v[0] == "q"]


def used(node, n, sub_busy=True):
    """Exact used-qubit set.  sub_busy: an (unexpanded) subcircuit block counts as all qubits
    (its implicit prepare/measure); with False only the gates written in it count."""
    tag = node[0]
    if tag == "g":
        if node[1] in (PREP, MEAS) or node[1].startswith("BSY"):
            return set(range(n))  # busy gates occupy every qubit, whatever their arguments
        if is_idle(node[1]):
            return set()
        s = set()
        for v in node[2]:
            if v[0] == "q":
                s.add(v[1])
            elif v[0] == "reg":
                s.update(v[1])
        return s
    if tag == "loop":
        return used(node[2], n, sub_busy)
    if tag == "sub" and sub_busy:
        return set(range(n))
    out = set()
    for k in node[2] if tag == "sub" else node[1]:
        out |= used(k, n, sub_busy)
    return out


def static_errors(tree, n):
    """[(kind, culprit)] : 'repeated-qubit' gates, 'parallel-overlap' blocks."""
    errs = []

    def rec(node):
        tag = node[0]
        if tag == "g":
            qs = gate_qubits(node)
            if len(set(qs)) != len(qs):
                errs.append(("repeated-qubit", node[3]))
            return
        if tag == "loop":
            rec(node[2])
            return
        kids = node[2] if tag == "sub" else node[1]
        for k in kids:
            rec(k)
        if tag == "par":
            seen = set()
            for k in kids:
                u = used(k, n)
                if seen & u:
                    errs.append(("parallel-overlap", node[2]))
                    break
                seen |= u

    rec(tree)
    return errs


def has_parallel_overlap(tree, n):
    return any(k == "parallel-overlap" for k, _c in static_errors(tree, n))


# ------------------------------------------------------------------------------ acceptance (C12)


class Reject(Exception):
    def __init__(self, rule):
        super().__init__(rule)
        self.rule = rule


def flat_sites(tree):
    """Flat-order walk (textual order ignoring loop counts).  Returns (n_subcircuits, site_index)
    where site_index maps id(measure-site node) -> flat subcircuit index; raises Reject."""
    st = {"open": None, "closed": [], "opener": None}
    site_index = {}
    token = [0]

    def open_(site):
        token[0] += 1
        st["open"] = token[0]
        st["opener"] = id(site)

    def close(site):
        if st["open"] is None:
            raise Reject("measure-without-prepare")
        site_index[id(site)] = len(st["closed"])
        site_index[("opener", len(st["closed"]))] = st["opener"]
        st["closed"].append(st["open"])
        st["open"] = None

    def rec(node):
        tag = node[0]
        if tag == "g":
            if node[1] == PREP:
                open_(node)
            elif node[1] == MEAS:
                close(node)
            elif st["open"] is None:
                raise Reject("gate-outside-subcircuit")
        elif tag == "sub":
            open_(node)
            for k in node[2]:
                rec(k)
            close(node)
        elif tag == "loop":
            entry = st["open"]
            n0 = len(st["closed"])
            rec(node[2])
            if node[1] > 1 and entry is not None and entry in st["closed"][n0:]:
                raise Reject("loop-closes-outer-subcircuit")
        else:
            for k in node[1]:
                rec(k)

    rec(tree)
    return len(st["closed"]), site_index


def accept(tree):
    """("ok", n_subcircuits, site_index) or ("reject", rule)."""
    try:
        n, sites = flat_sites(tree)
    except Reject as r:
        return ("reject", r.rule)
    return ("ok", n, sites)


# ------------------------------------------------------------------------------ execution (C08, C03)


def unrolled_size(tree, cap=10**7):
    """Number of gate applications of the unrolled program (capped)."""

    def rec(node):
        tag = node[0]
        if tag == "g":
            return 1
        if tag == "loop":
            return min(cap, node[1] * rec(node[2]))
        kids = node[2] if tag == "sub" else node[1]
        return min(cap, sum(rec(k) for k in kids) + (2 if tag == "sub" else 0))

    return rec(tree)


def execute(tree, site_index, apply_gate=None, init=None):
    """Unrolled execution.  Returns list of (flat_subcircuit_index, state|None) per visit.
    apply_gate(state, name, vals) -> state ; init() -> fresh state."""
    visits = []
    cur = {"state": None, "open": False, "opener": None}

    def measure(site):
        # A visit of flat subcircuit i is a run from i's own prepare to i's measure.  A measure
        # executed while nothing is open, or closing a run opened by ANOTHER subcircuit's
        # prepare (both only possible when a prepare/measure sits in a zero-count loop), is
        # recorded as "ambiguous": the properties do not say what such a run means.
        idx = site_index[id(site)]
        if not cur["open"] or cur["opener"] != site_index[("opener", idx)]:
            visits.append((idx, "ambiguous"))
        else:
            visits.append((idx, cur["state"]))
        cur["open"] = False
        cur["state"] = None

    def rec(node):
        tag = node[0]
        if tag == "g":
            if node[1] == PREP:
                cur["open"] = True
                cur["opener"] = id(node)
                cur["state"] = init() if init else None
            elif node[1] == MEAS:
                measure(node)
            elif cur["open"] and apply_gate is not None:
                cur["state"] = apply_gate(cur["state"], node[1], node[2])
        elif tag == "sub":
            cur["open"] = True
            cur["opener"] = id(node)
            cur["state"] = init() if init else None
            for k in node[2]:
                rec(k)
            measure(node)
        elif tag == "loop":
            for _ in range(node[1]):
                rec(node[2])
        else:
            for k in node[1]:
                rec(k)

    rec(tree)
    return visits


def subcircuit_block_states(tree, site_index, apply_gate, init):
    """The state every `subcircuit` BLOCK produces when it is run once, whether or not the
    program ever visits it (a block inside a zero-count loop is still a subcircuit of the
    program, listed in flat order, with its own distribution).  Returns {flat index: state}."""
    out = {}

    def run(node, state):
        tag = node[0]
        if tag == "g":
            return apply_gate(state, node[1], node[2])
        if tag == "loop":
            for _ in range(node[1]):
                state = run(node[2], state)
            return state
        for k in node[2] if tag == "sub" else node[1]:
            state = run(k, state)
        return state

    def rec(node):
        tag = node[0]
        if tag == "sub":
            st = init()
            for k in node[2]:
                st = run(k, st)
            out[site_index[id(node)]] = st
        elif tag == "loop":
            rec(node[2])
        elif tag != "g":
            for k in node[1]:
                rec(k)

    rec(tree)
    return out


# ------------------------------------------------------------------------------ schedule (C19)


def schedule(node, t0=0, out=None):
    """Unit-time model: gate = 1 step, sequence = sum, parallel = common start and max;
    loops are atoms of duration 1 (compared by body meaning).  Returns (duration, events)
    where events = [(start_time, atom)] and atom = ('g', name, vals) | ('loop', n, body)."""
    if out is None:
        out = []
    tag = node[0]
    if tag == "g":
        out.append((t0, ("g", node[1], node[2])))
        return 1, out
    if tag == "loop":
        out.append((t0, ("loop", node[1], node[2])))
        return 1, out
    kids = node[2] if tag == "sub" else node[1]
    if tag == "par":
        dur = 0
        for k in kids:
            d, _ = schedule(k, t0, out)
            dur = max(dur, d)
        return dur, out
    t = t0
    for k in kids:
        d, _ = schedule(k, t, out)
        t += d
    return t - t0, out
