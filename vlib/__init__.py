"""Verification library for haikusw/jaqalpaq (property-based testing / fuzzing).

`vlib.model`, `vlib.refgrammar`, `vlib.refsim` never import jaqalpaq: they are the
reference the code under test is judged against.
"""
import os
import sys

VERIF_DIR = os.path.dirname(os.path.dirname(os.path.abspath(__file__)))
REPO_SRC = os.path.join(os.environ.get("VERIF_REPO", "/repo"), "src")


def setup_paths():
    """Put the code under test (current working tree) and offline deps first on sys.path."""
    deps = os.path.join(VERIF_DIR, ".deps")
    if os.path.isdir(deps) and deps not in sys.path:
        sys.path.insert(0, deps)
    if REPO_SRC not in sys.path:
        sys.path.insert(0, REPO_SRC)
    elif sys.path[0] != REPO_SRC:
        sys.path.remove(REPO_SRC)
        sys.path.insert(0, REPO_SRC)
