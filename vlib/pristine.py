"""Evaluate ONE text in a pristine interpreter (fresh `python -c`, nothing imported but the
entry point): the reference for "a failed call leaves nothing behind".

Usage (as a worker):  python -m vlib.pristine   < {"entry":..., "text":...}   > {"outcome": [...]}

The worker asserts that importlib.util has not been imported before the call (the first-use
clause of property C16) and imports neither Hypothesis nor the harness.
"""

import json
import os
import subprocess
import sys

PULSE_DIR = os.path.join(os.path.dirname(os.path.abspath(__file__)), "pulses")
VERIF_DIR = os.path.dirname(os.path.dirname(os.path.abspath(__file__)))
_SHARED_GATES = {}


def outcome(entry, text):
    """Run one entry point on one text; returns a JSON-able outcome.  Used both in-process
    (by the check) and by the pristine worker, so both sides are computed by the same code."""
    try:
        if entry == "parse":
            from jaqalpaq.parser import parse_jaqal_string

            c = parse_jaqal_string(text, autoload_pulses=False)
        elif entry == "header":
            from jaqalpaq.parser.parser import parse_jaqal_string_header

            c = parse_jaqal_string_header(text)
        elif entry == "parse-inj":
            from jaqalpaq.parser import parse_jaqal_string
            from vlib.pulses.moda import jaqal_gates

            # ONE gate-set object for all calls of the process, as a caller with a module-level
            # gate dictionary has: anything the library keys on that object is shared state
            if not _SHARED_GATES:
                _SHARED_GATES.update(jaqal_gates.ALL_GATES)
            c = parse_jaqal_string(text, inject_pulses=_SHARED_GATES, autoload_pulses=False)
        elif entry == "parse-expand":
            from jaqalpaq.parser import parse_jaqal_string

            c = parse_jaqal_string(text, autoload_pulses=False, expand_macro=True, expand_let=True)
        elif entry == "parse-inj-load":
            # injected definitions TOGETHER with loading the program's pulse modules (injected
            # names take precedence; the modules themselves must stay as they are)
            from jaqalpaq.parser import parse_jaqal_string
            from vlib.pulses.moda import jaqal_gates

            if not _SHARED_GATES:
                _SHARED_GATES.update(jaqal_gates.ALL_GATES)
            c = parse_jaqal_string(text, inject_pulses=_SHARED_GATES, autoload_pulses=True, import_path=PULSE_DIR)
        elif entry == "parse-rel":
            from jaqalpaq.parser import parse_jaqal_string

            c = parse_jaqal_string(text, autoload_pulses=True, import_path=PULSE_DIR)
        elif entry in ("parse-nopath", "parse-filepath"):
            # the import directory does not exist / is a file: a module that cannot be found
            from jaqalpaq.parser import parse_jaqal_string

            ip = os.path.join(PULSE_DIR, "no_such_directory") if entry == "parse-nopath" else os.path.join(PULSE_DIR, "moda.py")
            c = parse_jaqal_string(text, autoload_pulses=True, import_path=ip)
        elif entry == "parse-alt":
            from jaqalpaq.parser import parse_jaqal_string

            c = parse_jaqal_string(text, autoload_pulses=True, import_path=os.path.join(PULSE_DIR, "alt"))
        elif entry in ("parse-file", "run-file"):
            return _file_outcome(entry, text)
        elif entry == "run":
            import numpy
            from jaqalpaq.emulator import run_jaqal_string

            numpy.random.seed(11)
            r = run_jaqal_string(text, import_path=PULSE_DIR)
            return _run_result(r)
        else:
            raise ValueError(entry)
        from jaqalpaq.generator import generate_jaqal_program

        try:
            t = generate_jaqal_program(c)
        except Exception as e:  # noqa: BLE001 - outcome recording
            t = f"<generate raised {type(e).__name__}>"
        return ["ok", t, repr(c)]
    except BaseException as e:  # noqa: BLE001 - outcome recording
        if type(e).__name__ in ("BudgetExceeded", "KeyboardInterrupt", "HarnessError"):
            raise
        from jaqalpaq.error import JaqalError

        pos = None
        if hasattr(e, "line") and hasattr(e, "column"):
            pos = [e.line, e.column]
        return ["err", type(e).__name__, isinstance(e, JaqalError), str(e)[:300], pos]


def _run_result(r):
    return ["ok", [[round(float(x), 9) for x in sc.simulated_probability_by_int] for sc in r.subcircuits], [x.as_int for x in r.readouts]]


def _file_outcome(entry, text):
    """The file entry points: the program is written next to copies of the pulse modules, so
    that the documented default import path (the file's directory) is what resolves relative
    imports.  The temporary directory's name is masked in the outcome."""
    import shutil
    import tempfile

    d = tempfile.mkdtemp(prefix="vlibc16_")
    try:
        shutil.copytree(PULSE_DIR, os.path.join(d, "p"), ignore=shutil.ignore_patterns("__pycache__"))
        fname = os.path.join(d, "p", "prog.jaqal")
        with open(fname, "w", encoding="utf-8", newline="") as fd:
            fd.write(text)
        out = _file_call(entry, fname)
        return [x.replace(d, "<DIR>") if isinstance(x, str) else x for x in out]
    finally:
        shutil.rmtree(d, ignore_errors=True)


def _file_call(entry, fname):
    try:
        if entry == "parse-file":
            from jaqalpaq.parser import parse_jaqal_file
            from jaqalpaq.generator import generate_jaqal_program

            c = parse_jaqal_file(fname, autoload_pulses=True)
            try:
                t = generate_jaqal_program(c)
            except Exception as e:  # noqa: BLE001 - outcome recording
                t = f"<generate raised {type(e).__name__}>"
            return ["ok", t, repr(c)]
        import numpy
        from jaqalpaq.emulator import run_jaqal_file

        numpy.random.seed(11)
        return _run_result(run_jaqal_file(fname))
    except BaseException as e:  # noqa: BLE001 - outcome recording
        if type(e).__name__ in ("BudgetExceeded", "KeyboardInterrupt", "HarnessError"):
            raise
        from jaqalpaq.error import JaqalError

        pos = None
        if hasattr(e, "line") and hasattr(e, "column"):
            pos = [e.line, e.column]
        return ["err", type(e).__name__, isinstance(e, JaqalError), str(e)[:300], pos]


def _worker():
    req = json.loads(sys.stdin.read())
    src = req["src"]
    if src not in sys.path:
        sys.path.insert(0, src)
    sys.path.insert(0, VERIF_DIR)
    pre = "importlib.util" in sys.modules
    out = outcome(req["entry"], req["text"])
    sys.stdout.write(json.dumps({"outcome": out, "importlib_util_preloaded": pre}))


def pristine_outcome(entry, text, src):
    """Spawn a fresh interpreter for one (entry, text)."""
    code = (
        "import sys, json; sys.path.insert(0, %r); sys.path.insert(0, %r); "
        "import vlib.pristine as p; p._worker()" % (src, VERIF_DIR)
    )
    # vlib/__init__ is import-light (os, sys); vlib.pristine imports json/os/subprocess/sys only
    env = dict(os.environ, PYTHONHASHSEED="0")
    env.pop("PYTHONPATH", None)
    r = subprocess.run(
        [sys.executable, "-c", code],
        input=json.dumps({"entry": entry, "text": text, "src": src}),
        capture_output=True,
        text=True,
        env=env,
        cwd=VERIF_DIR,
        timeout=120,
    )
    if r.returncode != 0 or not r.stdout:
        raise RuntimeError(f"pristine worker failed: rc={r.returncode}\n{r.stderr[-2000:]}")
    d = json.loads(r.stdout)
    if d["importlib_util_preloaded"]:
        raise RuntimeError("pristine worker is not pristine: importlib.util already imported")
    return d["outcome"]


if __name__ == "__main__":
    _worker()
