"""CLI: python -m vlib.run C01 [--tier quick|thorough] [--replay FILE] [--part NAME]

exit 0: property held on everything explored; exit 1: VIOLATION line(s) printed;
exit 2: harness error / inconclusive (never a violation)."""
import argparse
import importlib
import os
import sys


def main():
    ap = argparse.ArgumentParser()
    ap.add_argument("prop")
    ap.add_argument("--tier", default=os.environ.get("VERIF_TIER") or "quick")
    ap.add_argument("--replay")
    ap.add_argument("--replay-inner", dest="replay_inner")
    ap.add_argument("--part")
    a = ap.parse_args()
    os.environ.setdefault("PYTHONHASHSEED", "0")
    if os.environ.get("PYTHONHASHSEED") != "0" or not os.environ.get("_VERIF_REEXEC"):
        # fresh process with a fixed hash seed: iteration orders are a pure function of the tree
        env = dict(os.environ, PYTHONHASHSEED="0", _VERIF_REEXEC="1")
        os.execve(sys.executable, [sys.executable, "-m", "vlib.run"] + sys.argv[1:], env)
    tier = a.tier if a.tier in ("quick", "thorough") else "quick"
    try:
        seed = int(os.environ.get("VERIF_SEED", "1") or "1")
    except ValueError:
        seed = 1
    try:
        from . import harness

        mod = importlib.import_module(f"vlib.checks.{a.prop.lower()}")
        rc = harness.run_check(mod, tier=tier, seed=seed, replay=a.replay, only_part=a.part, replay_inner=a.replay_inner)
    except SystemExit:
        raise
    except BaseException:
        import traceback

        traceback.print_exc()
        print(f"HARNESS-ERROR property={a.prop}")
        rc = 2
    sys.exit(rc)


if __name__ == "__main__":
    main()
