"""Native gate sets with ideal unitaries, supplied by the harness (inputs of the properties).

Matrices are deterministic functions of (set seed, gate name, arguments); fixed gates are
Haar-style unitaries (asymmetric with probability 1), parametrised gates are
V diag(exp(-i(a*l + b*m))) V^dagger.  Bit j of a matrix index = j-th qubit argument.
"""

import numpy as np

from . import setup_paths

setup_paths()

from jaqalpaq.core import GateDefinition, Parameter, ParamType  # noqa: E402
from jaqalpaq.core.gatedef import BusyGateDefinition, add_idle_gates  # noqa: E402

# name -> kinds ('q' qubit, 'f' float, 'i' int)
KINDS = {
    "prepare_all": [],
    "measure_all": [],
    "U1": ["q"],
    "V1": ["q"],
    "X": ["q"],
    "R1": ["q", "f"],
    "R2": ["q", "f", "f"],
    "N1": ["q", "i"],
    "U2": ["q", "q"],
    "W2": ["q", "q"],
    "P2": ["q", "f", "q"],
    "M2": ["q", "q", "f", "f"],
    "U3": ["q", "q", "q"],
    "D2": ["q", "q", "f"],  # diagonal, asymmetric in its qubits (controlled-phase style)
    "D3": ["q", "q", "q"],  # diagonal 3-qubit gate with generic phases
    "CX": ["q", "q"],  # permutation matrix (control = first argument)
    "INC2": ["q", "q"],  # permutation that is NOT its own inverse: |x> -> |x+1 mod 4>
    "PM3": ["q", "q", "q"],  # seed-dependent 3-qubit permutation matrix (not an involution)
    "MP2": ["q", "q", "f"],  # monomial: a 4-cycle permutation times angle-dependent phases
    "NoU": ["q"],
}

PTYPE = {"q": ParamType.QUBIT, "f": ParamType.FLOAT, "i": ParamType.INT, "r": ParamType.REGISTER}

# gates with REGISTER parameters (no unitary: the emulator has no meaning for them; used by the
# analyses only - a register argument uses every qubit of that register or alias)
REG_KINDS = {"RG": ["r"], "RQ": ["q", "r"], "RR": ["r", "f", "r"]}


def haar(rng, dim):
    z = rng.normal(size=(dim, dim)) + 1j * rng.normal(size=(dim, dim))
    q, r = np.linalg.qr(z)
    d = np.diag(r)
    return q * (d / np.abs(d))


def _name_seed(seed, name):
    return (seed * 1000003 + sum((i + 1) * ord(c) for i, c in enumerate(name))) % (2**32)


def unitary_fn(seed, name, kinds):
    nq = kinds.count("q")
    ncl = len(kinds) - nq
    dim = 2**nq
    rng = np.random.default_rng(_name_seed(seed, name))
    if name == "X":
        m = np.array([[0, 1], [1, 0]], dtype=complex)
        return lambda: m
    if name == "CX":
        # bit 0 = first argument = control, bit 1 = target
        cx = np.array([[1, 0, 0, 0], [0, 0, 0, 1], [0, 0, 1, 0], [0, 1, 0, 0]], dtype=complex)
        return lambda: cx
    if name == "INC2":
        inc = np.zeros((4, 4), dtype=complex)
        for x in range(4):
            inc[(x + 1) % 4, x] = 1
        return lambda: inc
    if name == "PM3":
        r = np.random.default_rng(_name_seed(seed, name))
        while True:
            perm = r.permutation(8)
            if any(perm[perm[x]] != x for x in range(8)):
                break
        pm = np.zeros((8, 8), dtype=complex)
        for x in range(8):
            pm[perm[x], x] = 1
        return lambda: pm
    if name == "MP2":
        lam = np.random.default_rng(_name_seed(seed, name)).uniform(-2, 2, size=4)
        cyc = [2, 0, 3, 1]  # a 4-cycle: x -> cyc[x]

        def mp(t):
            m = np.zeros((4, 4), dtype=complex)
            for x in range(4):
                m[cyc[x], x] = np.exp(-1j * float(t) * lam[x])
            return m

        return mp
    if name == "D3":
        ph = np.random.default_rng(_name_seed(seed, name)).uniform(-3, 3, size=8)
        d3 = np.diag(np.exp(-1j * ph))
        return lambda: d3
    if name == "D2":
        lam = np.random.default_rng(_name_seed(seed, name)).uniform(-2, 2, size=4)
        return lambda t: np.diag(np.exp(-1j * float(t) * lam))
    v = haar(rng, dim)
    if ncl == 0:
        return lambda: v
    lams = [rng.uniform(-2, 2, size=dim) for _ in range(ncl)]
    vh = v.conj().T

    def fn(*args):
        assert len(args) == ncl, (name, args)
        ph = np.zeros(dim)
        for a, l in zip(args, lams):
            ph = ph + float(a) * l
        return (v * np.exp(-1j * ph)) @ vh

    return fn


def make_gates(seed=0, idle=True, names=None, reg_gates=False):
    """A native gate set.  Returns dict name -> GateDefinition."""
    g = {}
    for name, kinds in KINDS.items():
        if names is not None and name not in names and name not in ("prepare_all", "measure_all"):
            continue
        if name in ("prepare_all", "measure_all"):
            g[name] = BusyGateDefinition(name)
            continue
        params = [Parameter(f"a{i}", PTYPE[k]) for i, k in enumerate(kinds)]
        if name == "NoU":
            g[name] = GateDefinition(name, params)
        else:
            g[name] = GateDefinition(name, params, ideal_unitary=unitary_fn(seed, name, kinds))
    if reg_gates:
        for name, kinds in REG_KINDS.items():
            g[name] = GateDefinition(name, [Parameter(f"a{i}", PTYPE[k]) for i, k in enumerate(kinds)])
        # a BUSY gate (prepare/measure style: occupies every qubit) that has a qubit parameter
        g["BSY1"] = BusyGateDefinition("BSY1", [Parameter("a0", ParamType.QUBIT)])
    if idle:
        g = add_idle_gates(g)
    return g


def kinds_table(idle=True, names=None):
    t = {}
    for name, kinds in KINDS.items():
        if names is not None and name not in names and name not in ("prepare_all", "measure_all"):
            continue
        t[name] = list(kinds)
        if idle and name not in ("prepare_all", "measure_all"):
            t["I_" + name] = list(kinds)
    return t


def matrix(seed, name, classical_args):
    """The matrix of gate `name` (idle variants and NoU -> None = identity)."""
    if name.startswith("I_") or name == "NoU" or name in ("prepare_all", "measure_all"):
        return None
    return unitary_fn(seed, name, KINDS[name])(*classical_args)
