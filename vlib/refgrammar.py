"""Independent reference for the Jaqal token-level grammar (no sly, no jaqalpaq).

* `GRAMMAR`: context-free grammar over token kinds, transcribed from the property statement
  and the Jaqal specification (header statements before body statements, sequential and
  parallel blocks alternating, loops / subcircuits only in sequential context, `;`/newline
  and `|`/newline separator runs, optional leading/trailing separators in blocks).
* `earley(kinds)`: recognizer -> (accepted, first_offending_index | None).  The index is the
  first token at which no derivation can continue (viable-prefix property), None = the text
  ends too early.
* `rd_parse(tokens)`: second, recursive-descent implementation that builds the statement tree
  (S-expression) for accepted streams; used as the expected tree and to self-test Earley.

Token = (kind, value).  Kinds: REG MAP LET MACRO LOOP IMPORT USEPULSES FROM AS BRANCH
SUBCIRCUIT NL ID DOTID NUMBER INT BININT and the literal characters < > | { } ; [ ] , * :
"""

KEYWORD_KIND = {
    "register": "REG",
    "map": "MAP",
    "let": "LET",
    "macro": "MACRO",
    "loop": "LOOP",
    "import": "IMPORT",
    "usepulses": "USEPULSES",
    "from": "FROM",
    "as": "AS",
    "branch": "BRANCH",
    "subcircuit": "SUBCIRCUIT",
}
LITERALS = "<>|{};[],*:"

_G = """
start      : pad items
items      : | hitems | bitems
hitems     : hdr | hdr sep | hdr sep hitems | hdr sep bitems
bitems     : body | body sep | body sep bitems
sep        : SEP | SEP sep
SEP        : NL | ;
pad        : | SEP pad
hdr        : reg | let | map | usepulses | import
body       : gate | par_block | seq_block | sub_block | loop | macro | branch
reg        : REG ID [ loi ]
let        : LET ID NUMBER | LET ID INT
map        : MAP ID ID | MAP ID ID [ soi ]
soi        : loi | sstart sstop sstep
sstart     : loi : | :
sstop      : loi |
sstep      : : loi |
usepulses  : FROM ID USEPULSES * | FROM DOTID USEPULSES *
import     : IMPORT ID AS ID
gate       : ID args
args       : | arg args
arg        : ID | NUMBER | INT | ID [ ID ] | ID [ INT ]
loop       : LOOP loi block
block      : seq_block | par_block
seq_block  : curly
curly      : { pad seq_items }
seq_items  : | seq_stmt | seq_stmt sep | seq_stmt sep seq_items1
seq_items1 : seq_stmt | seq_stmt sep | seq_stmt sep seq_items1
seq_stmt   : gate | par_block | loop | sub_block
par_block  : < ppad par_items >
par_items  : | par_stmt | par_stmt psep | par_stmt psep par_items1
par_items1 : par_stmt | par_stmt psep | par_stmt psep par_items1
par_stmt   : gate | seq_block
psep       : PSEP | PSEP psep
PSEP       : NL | |
ppad       : | PSEP ppad
sub_block  : SUBCIRCUIT curly | SUBCIRCUIT loi curly
macro      : MACRO names block
names      : ID | ID names
branch     : BRANCH { pad case_items }
case_items : | case | case sep | case sep case_items1
case_items1: case | case sep | case sep case_items1
case       : BININT : block
loi        : INT | ID
"""


def _parse_grammar(text):
    rules = {}
    for line in text.strip().splitlines():
        lhs, rhs = line.split(":", 1)
        lhs = lhs.strip()
        alts = []
        # split on ' | ' alternatives, but '|' is also a terminal (PSEP): handle explicitly
        if lhs == "PSEP":
            alts = [["NL"], ["|"]]
        else:
            # a ':' terminal appears inside rhs for sstart/sstep/case: protect by tokenising
            for alt in _split_alts(rhs):
                alts.append(alt)
        rules[lhs] = alts
    return rules


def _split_alts(rhs):
    toks = rhs.split()
    alts, cur = [], []
    for t in toks:
        if t == "|":
            alts.append(cur)
            cur = []
        else:
            cur.append(t)
    alts.append(cur)
    return alts


GRAMMAR = _parse_grammar(_G)
NONTERMS = set(GRAMMAR)


def _nullable():
    nul = set()
    changed = True
    while changed:
        changed = False
        for lhs, alts in GRAMMAR.items():
            if lhs in nul:
                continue
            for alt in alts:
                if all(s in nul for s in alt):
                    nul.add(lhs)
                    changed = True
                    break
    return nul


NULLABLE = _nullable()


def earley(kinds):
    """Earley recognizer.  kinds: list of token kinds.  Returns (accepted, k) where k is the
    index of the first token that no derivation admits (None when the stream is a viable
    prefix, i.e. rejected only because it ends too early, or accepted)."""
    n = len(kinds)
    # item: (lhs, alt_index, dot, origin)
    chart = [set() for _ in range(n + 1)]
    order = [[] for _ in range(n + 1)]

    def add(i, item):
        if item not in chart[i]:
            chart[i].add(item)
            order[i].append(item)

    for ai in range(len(GRAMMAR["start"])):
        add(0, ("start", ai, 0, 0))
    for i in range(n + 1):
        j = 0
        while j < len(order[i]):
            lhs, ai, dot, origin = order[i][j]
            j += 1
            alt = GRAMMAR[lhs][ai]
            if dot < len(alt):
                sym = alt[dot]
                if sym in NONTERMS:
                    for bi in range(len(GRAMMAR[sym])):
                        add(i, (sym, bi, 0, i))
                    if sym in NULLABLE:
                        add(i, (lhs, ai, dot + 1, origin))
                else:
                    if i < n and kinds[i] == sym:
                        add(i + 1, (lhs, ai, dot + 1, origin))
            else:
                for l2, a2, d2, o2 in list(order[origin]):
                    alt2 = GRAMMAR[l2][a2]
                    if d2 < len(alt2) and alt2[d2] == lhs:
                        add(i, (l2, a2, d2 + 1, o2))
        if i < n and not chart[i + 1]:
            return (False, i)
    accepted = any(
        lhs == "start" and dot == len(GRAMMAR["start"][ai]) and origin == 0 for lhs, ai, dot, origin in chart[n]
    )
    return (accepted, None)


# ------------------------------------------------------------------------------ recursive descent


class RDError(Exception):
    def __init__(self, index):
        super().__init__(f"syntax error at token {index}")
        self.index = index


class RD:
    """Recursive-descent parser producing the statement tree as an S-expression."""

    def __init__(self, tokens):
        self.t = tokens
        self.i = 0

    def kind(self, off=0):
        j = self.i + off
        return self.t[j][0] if j < len(self.t) else None

    def take(self, kind):
        if self.kind() != kind:
            raise RDError(self.i)
        v = self.t[self.i][1]
        self.i += 1
        return v

    def seps(self, kinds):
        n = 0
        while self.kind() in kinds:
            self.i += 1
            n += 1
        return n

    def loi(self):
        if self.kind() in ("INT", "ID"):
            return self.take(self.kind())
        raise RDError(self.i)

    def program(self):
        out = ["circuit"]
        in_body = False
        self.seps(("NL", ";"))
        first = True
        while self.kind() is not None:
            if not first:
                pass
            k = self.kind()
            if k in ("REG", "LET", "MAP", "FROM", "IMPORT"):
                if in_body:
                    raise RDError(self.i)
                out.append(self.header())
            else:
                out.append(self.body_stmt())
                in_body = True
            first = False
            if self.kind() is None:
                break
            if self.seps(("NL", ";")) == 0:
                raise RDError(self.i)
        return out

    def header(self):
        k = self.kind()
        if k == "REG":
            self.take("REG")
            name = self.take("ID")
            self.take("[")
            size = self.loi()
            self.take("]")
            return ["register", name, size]
        if k == "LET":
            self.take("LET")
            name = self.take("ID")
            if self.kind() in ("NUMBER", "INT"):
                return ["let", name, self.take(self.kind())]
            raise RDError(self.i)
        if k == "MAP":
            self.take("MAP")
            name = self.take("ID")
            src = self.take("ID")
            if self.kind() != "[":
                return ["map", name, src]
            self.take("[")
            if self.kind() == ":":
                self.take(":")
                start = None
                is_slice = True
            else:
                start = self.loi()
                is_slice = self.kind() == ":"
                if is_slice:
                    self.take(":")
            if not is_slice:
                self.take("]")
                return ["map", name, src, start]
            stop = step = None
            if self.kind() in ("INT", "ID"):
                stop = self.loi()
            if self.kind() == ":":
                self.take(":")
                step = self.loi()
            self.take("]")
            return ["map", name, src, start, stop, step]
        if k == "FROM":
            self.take("FROM")
            if self.kind() in ("ID", "DOTID"):
                mod = self.take(self.kind())
            else:
                raise RDError(self.i)
            self.take("USEPULSES")
            self.take("*")
            return ["usepulses", mod, "*"]
        if k == "IMPORT":
            self.take("IMPORT")
            a = self.take("ID")
            self.take("AS")
            b = self.take("ID")
            return ["import", a, b]
        raise RDError(self.i)

    def body_stmt(self):
        k = self.kind()
        if k == "ID":
            return self.gate()
        if k == "<":
            return self.par_block()
        if k == "{":
            return self.seq_block()
        if k == "SUBCIRCUIT":
            return self.sub_block()
        if k == "LOOP":
            return self.loop()
        if k == "MACRO":
            self.take("MACRO")
            names = [self.take("ID")]
            while self.kind() == "ID":
                names.append(self.take("ID"))
            return ["macro"] + names + [self.block()]
        if k == "BRANCH":
            self.take("BRANCH")
            self.take("{")
            self.seps(("NL", ";"))
            cases = []
            while self.kind() == "BININT":
                st = self.take("BININT")
                self.take(":")
                cases.append(["case", st, self.block()])
                if self.kind() == "}":
                    break
                if self.seps(("NL", ";")) == 0:
                    raise RDError(self.i)
            self.take("}")
            return ["branch"] + cases
        raise RDError(self.i)

    def gate(self):
        out = ["gate", self.take("ID")]
        while self.kind() in ("ID", "NUMBER", "INT"):
            k = self.kind()
            v = self.take(k)
            if k == "ID" and self.kind() == "[":
                self.take("[")
                if self.kind() in ("ID", "INT"):
                    ix = self.take(self.kind())
                else:
                    raise RDError(self.i)
                self.take("]")
                out.append(["array_item", v, ix])
            else:
                out.append(v)
        return out

    def block(self):
        if self.kind() == "{":
            return self.seq_block()
        if self.kind() == "<":
            return self.par_block()
        raise RDError(self.i)

    def curly(self):
        self.take("{")
        self.seps(("NL", ";"))
        out = []
        while self.kind() != "}":
            k = self.kind()
            if k == "ID":
                out.append(self.gate())
            elif k == "<":
                out.append(self.par_block())
            elif k == "LOOP":
                out.append(self.loop())
            elif k == "SUBCIRCUIT":
                out.append(self.sub_block())
            else:
                raise RDError(self.i)
            if self.kind() == "}":
                break
            if self.seps(("NL", ";")) == 0:
                raise RDError(self.i)
        self.take("}")
        return out

    def seq_block(self):
        return ["sequential_block"] + self.curly()

    def par_block(self):
        self.take("<")
        self.seps(("NL", "|"))
        out = ["parallel_block"]
        while self.kind() != ">":
            k = self.kind()
            if k == "ID":
                out.append(self.gate())
            elif k == "{":
                out.append(self.seq_block())
            else:
                raise RDError(self.i)
            if self.kind() == ">":
                break
            if self.seps(("NL", "|")) == 0:
                raise RDError(self.i)
        self.take(">")
        return out

    def sub_block(self):
        self.take("SUBCIRCUIT")
        cnt = ""
        if self.kind() in ("INT", "ID"):
            cnt = self.loi()
        return ["subcircuit_block", cnt] + self.curly()

    def loop(self):
        self.take("LOOP")
        n = self.loi()
        return ["loop", n, self.block()]


def rd_parse(tokens):
    """Returns ("ok", tree) or ("err", index|None)."""
    p = RD(tokens)
    try:
        tree = p.program()
    except RDError as e:
        return ("err", e.index if e.index < len(tokens) else None)
    return ("ok", tree)


def classify(text_tok):
    """Token kind of a token spelled `text_tok` (as the harness renders it)."""
    import re

    if text_tok == "\n":
        return ("NL", "\n")
    if text_tok in KEYWORD_KIND:
        return (KEYWORD_KIND[text_tok], text_tok)
    if len(text_tok) == 1 and text_tok in LITERALS:
        return (text_tok, text_tok)
    if re.fullmatch(r"[a-zA-Z_](\.?[a-zA-Z0-9_])*", text_tok):
        return ("ID", text_tok)
    if re.fullmatch(r"\.([a-zA-Z_](\.?[a-zA-Z0-9_])*)?", text_tok):
        return ("DOTID", text_tok)
    if re.fullmatch(r"[-+]?[0-9]*\.[0-9]+([eE][-+]?[0-9]+)?", text_tok):
        return ("NUMBER", float(text_tok))
    if re.fullmatch(r"[-+]?[0-9]+", text_tok):
        return ("INT", int(text_tok))
    if re.fullmatch(r"'[01]+'", text_tok):
        return ("BININT", int(text_tok[1:-1], 2))
    raise ValueError(f"not a token: {text_tok!r}")
