"""Independent program model ("Prog") and reference semantics for Jaqal.

Written from the language rules as the properties in /verif/properties.jsonl state them.
This module NEVER imports jaqalpaq.

Prog (JSON-serialisable, also the replay format)::

    prog  = {"usepulses": [modname...],
             "lets":   [[name, number]...],
             "reg":    [name, size] | None           size: int | letname
             "maps":   [[name, src, sel]...]          sel: None | ["i", idx] | ["s", start, stop, step]
                                                      idx/start/stop/step: int | letname | None(default)
             "macros": [{"name": n, "params": [p...], "body": BLOCK}...],
             "body":   [STMT...]}
    STMT  = ["g", name, [ARG...]] | BLOCK | ["loop", count, BLOCK] | ["sub", count|None, [STMT...]]
    BLOCK = ["seq", [STMT...]] | ["par", [STMT...]]
    ARG   = ["n", number] | ["id", name] | ["ix", arrayname, int|name]

Meaning tree (what two programs must agree on to "mean the same")::

    node = ("g", name, (val...)) | ("seq", (node...)) | ("par", (node...))
         | ("loop", n, node) | ("sub", k, (node...))
    val  = ("q", fundamental_index) | ("num", number) | ("reg", (fundamental_index...))
"""

import math

KEYWORDS = frozenset(
    ["register", "map", "let", "macro", "loop", "import", "usepulses", "from", "as", "branch", "subcircuit"]
)

STAGES = ("parse", "let", "macro", "run")


class Invalid(Exception):
    """The reference semantics says the program cannot be honoured.

    kind: short machine-readable reason; stage: the pipeline stage at which the offending
    value becomes known ("parse" for literals, "let" when it depends on a let value,
    "macro" when it depends on a macro argument)."""

    def __init__(self, kind, detail="", deps=()):
        super().__init__(f"{kind}: {detail}")
        self.kind = kind
        self.detail = detail
        self.deps = frozenset(deps)

    @property
    def stage(self):
        if "param" in self.deps:
            return "macro"
        if "let" in self.deps:
            return "let"
        return "parse"


def is_int(v):
    return isinstance(v, int) and not isinstance(v, bool)


def is_num(v):
    return (isinstance(v, int) or isinstance(v, float)) and not isinstance(v, bool)


def as_integer(v):
    """`let a 2.0` declares the integer 2 (value-preserving)."""
    if isinstance(v, float) and math.isfinite(v) and v == int(v):
        return int(v)
    return v


def empty_prog():
    return {"usepulses": [], "lets": [], "reg": None, "maps": [], "macros": [], "body": []}


class Ref:
    """Reference semantics of one program under one environment (override dictionary)."""

    def __init__(self, prog, env=None):
        self.prog = prog
        self.env = dict(env or {})
        self.lets = {}
        self.let_order = []
        self.header = {}  # name -> ("let"|"reg"|"map", payload)
        self.macros = {}
        self._elems_cache = {}
        self._build_header()

    # ------------------------------------------------------------------ header
    def _define(self, name, what):
        if name in self.header:
            raise Invalid("duplicate", name)
        self.header[name] = what

    def _build_header(self):
        p = self.prog
        for name, val in p["lets"]:
            if not is_num(val) or (isinstance(val, float) and not math.isfinite(val)):
                raise Invalid("let-value", name)
            self._define(name, ("let", None))
            self.lets[name] = val
            self.let_order.append(name)
        for k in self.env:
            if k not in self.lets:
                raise Invalid("override-unknown", k)
        if p["reg"] is not None:
            name, size = p["reg"]
            self._define(name, ("reg", size))
        for m in p["maps"]:
            self._define(m[0], ("map", m))
        # every header object must itself be valid
        if p["reg"] is not None:
            self.reg_size()
        for m in p["maps"]:
            self.elems(m[0])
        seen = set()
        for m in p["macros"]:
            if m["name"] in seen:
                raise Invalid("duplicate-macro", m["name"])
            if len(set(m["params"])) != len(m["params"]):
                raise Invalid("duplicate-param", m["name"])
            seen.add(m["name"])
            self.macros[m["name"]] = m

    def let_value(self, name):
        v = self.env.get(name, self.lets[name])
        return as_integer(v)

    def _int_of(self, x, what, bindings=None):
        """Evaluate an integer position: int literal | let name | parameter name.
        Returns (value, deps)."""
        if is_int(x):
            return x, frozenset()
        if isinstance(x, float):
            v = as_integer(x)
            if not is_int(v):
                raise Invalid("non-integer", f"{what}={x}")
            return v, frozenset()
        if isinstance(x, str):
            if bindings is not None and x in bindings:
                kind, payload, deps = bindings[x]
                deps = deps | {"param"}
                if kind != "num":
                    raise Invalid("non-integer", f"{what}: parameter {x} bound to {kind}", deps)
                v = as_integer(payload)
                if not is_int(v):
                    raise Invalid("non-integer", f"{what}: parameter {x}={payload}", deps)
                return v, deps
            if x in self.lets:
                v = self.let_value(x)
                if not is_int(v):
                    raise Invalid("non-integer", f"{what}: let {x}={v}", {"let"})
                return v, frozenset({"let"})
            if x in self.header:
                raise Invalid("not-a-number", f"{what}: {x}")
            raise Invalid("undefined", x)
        raise Invalid("non-integer", f"{what}={x!r}")

    def reg_size(self):
        name, size = self.prog["reg"]
        v, deps = self._int_of(size, "register size")
        if v <= 0:
            raise Invalid("register-size", str(v), deps)
        return v

    def elems(self, name):
        """Fundamental indices named by a header register/alias.
        Returns ("reg", tuple, deps) or ("q", idx, deps)."""
        if name in self._elems_cache:
            return self._elems_cache[name]
        if name not in self.header:
            raise Invalid("undefined", name)
        what, payload = self.header[name]
        if what == "let":
            raise Invalid("not-a-register", name)
        if what == "reg":
            v, deps = self._int_of(payload, "register size")
            if v <= 0:
                raise Invalid("register-size", str(v), deps)
            res = ("reg", tuple(range(v)), deps)
        else:
            _n, src, sel = payload
            if src not in self.header:
                raise Invalid("undefined", src)
            # only earlier definitions are visible: a map may not refer to itself or later maps
            order = [self.prog["reg"][0]] if self.prog["reg"] else []
            order += [m[0] for m in self.prog["maps"]]
            if self.header[src][0] != "let" and order.index(src) >= order.index(name):
                raise Invalid("undefined", src)
            skind, sel_elems, sdeps = self.elems(src)
            if sel is None:
                res = (skind, sel_elems, sdeps)
                if skind == "q":
                    # `map a b` with b a single qubit: aliasing a non-register
                    raise Invalid("not-a-register", src, sdeps)
            else:
                if skind != "reg":
                    raise Invalid("not-a-register", src, sdeps)
                n = len(sel_elems)
                if sel[0] == "i":
                    i, d = self._int_of(sel[1], "alias index")
                    deps = sdeps | d
                    if not 0 <= i < n:
                        raise Invalid("index", f"{src}[{i}] size {n}", deps)
                    res = ("q", sel_elems[i], deps)
                else:
                    deps = set(sdeps)
                    start, stop, step = sel[1], sel[2], sel[3]
                    d_start = d_stop = d_step = frozenset()
                    if start is None:
                        start = 0
                    else:
                        start, d_start = self._int_of(start, "slice start")
                        deps |= d_start
                    if stop is None:
                        stop = n
                    else:
                        stop, d_stop = self._int_of(stop, "slice stop")
                        deps |= d_stop
                    if step is None:
                        step = 1
                    else:
                        step, d_step = self._int_of(step, "slice step")
                        deps |= d_step
                    deps = frozenset(deps)
                    # a fault of ONE bound is known as soon as that bound is (a literal: at once)
                    if step < 1:
                        raise Invalid("slice", f"step {step}", frozenset(d_step))
                    if start < 0:
                        raise Invalid("slice", f"start {start}", frozenset(d_start))
                    if stop > n or stop < start:
                        raise Invalid("slice", f"{start}:{stop}:{step} of size {n}", deps)
                    res = ("reg", tuple(sel_elems[start + k * step] for k in range(len(range(start, stop, step)))), deps)
        self._elems_cache[name] = res
        return res

    # ------------------------------------------------------------------ meaning
    def eval_arg(self, arg, bindings):
        tag = arg[0]
        if tag == "n":
            if not is_num(arg[1]) or (isinstance(arg[1], float) and not math.isfinite(arg[1])):
                raise Invalid("number", repr(arg[1]))
            return ("num", arg[1], frozenset())
        if tag == "id":
            name = arg[1]
            if bindings is not None and name in bindings:
                k, pl, deps = bindings[name]
                return (k, pl, deps | {"param"})
            if name in self.lets:
                return ("num", self.let_value(name), frozenset({"let"}))
            if name in self.header:
                return self.elems(name)
            raise Invalid("undefined", name)
        if tag == "ix":
            arr, idx = arg[1], arg[2]
            if bindings is not None and arr in bindings:
                k, pl, deps = bindings[arr]
                deps = deps | {"param"}
            elif arr in self.lets:
                raise Invalid("not-a-register", arr)
            elif arr in self.header:
                k, pl, deps = self.elems(arr)
            else:
                raise Invalid("undefined", arr)
            if k != "reg":
                raise Invalid("not-a-register", arr, deps)
            i, d = self._int_of(idx, "index", bindings)
            deps = deps | d
            if not 0 <= i < len(pl):
                raise Invalid("index", f"{arr}[{i}] size {len(pl)}", deps)
            return ("q", pl[i], deps)
        raise ValueError(f"bad arg {arg!r}")

    def _count(self, c, bindings, what):
        if c is None:
            return 1
        v, deps = self._int_of(c, what, bindings)
        if v < 0:
            raise Invalid("count", f"{what}={v}", deps)
        return v

    def stmt(self, s, bindings, visible, desugar=False):
        tag = s[0]
        if tag == "g":
            name, args = s[1], s[2]
            vals = [self.eval_arg(a, bindings) for a in args]
            if name in visible:
                m = self.macros[name]
                if len(m["params"]) != len(vals):
                    raise Invalid("arity", f"macro {name}")
                inner = dict(zip(m["params"], vals))
                idx = [mm["name"] for mm in self.prog["macros"]].index(name)
                vis2 = set(mm["name"] for mm in self.prog["macros"][:idx])
                return self.stmt(m["body"], inner, vis2, desugar)
            return ("g", name, tuple((k, pl) for k, pl, _d in vals))
        if tag in ("seq", "par"):
            return (tag, tuple(self.stmt(x, bindings, visible, desugar) for x in s[1]))
        if tag == "loop":
            n = self._count(s[1], bindings, "loop count")
            return ("loop", n, self.stmt(s[2], bindings, visible, desugar))
        if tag == "sub":
            k = self._count(s[1], bindings, "subcircuit count")
            kids = tuple(self.stmt(x, bindings, visible, desugar) for x in s[2])
            if desugar:
                return ("seq", (("g", "prepare_all", ()),) + kids + (("g", "measure_all", ()),))
            return ("sub", k, kids)
        raise ValueError(f"bad stmt {s!r}")

    def meaning(self, desugar=False):
        """Normalised meaning of the main body."""
        vis = set(self.macros)
        return norm(("seq", tuple(self.stmt(x, None, vis, desugar) for x in self.prog["body"])))

    def macro_meaning(self, name, argvals, desugar=False):
        """Normalised meaning of a macro body under explicit argument values
        (each ("q", i) | ("num", v) | ("reg", (..)))."""
        m = self.macros[name]
        idx = [mm["name"] for mm in self.prog["macros"]].index(name)
        vis = set(mm["name"] for mm in self.prog["macros"][:idx])
        b = {p: (v[0], v[1], frozenset()) for p, v in zip(m["params"], argvals)}
        return norm(self.stmt(m["body"], b, vis, desugar))

    def check_macro_bodies(self):
        """Names used in macro bodies must resolve even if the macro is never called."""
        for i, m in enumerate(self.prog["macros"]):
            self._check_names(m["body"], set(m["params"]))

    def _check_names(self, s, params):
        tag = s[0]
        if tag == "g":
            for a in s[2]:
                if a[0] == "id" and a[1] not in params and a[1] not in self.header:
                    raise Invalid("undefined", a[1])
                if a[0] == "ix":
                    if a[1] not in params and a[1] not in self.header:
                        raise Invalid("undefined", a[1])
                    if isinstance(a[2], str) and a[2] not in params and a[2] not in self.header:
                        raise Invalid("undefined", a[2])
        elif tag in ("seq", "par"):
            for x in s[1]:
                self._check_names(x, params)
        elif tag == "loop":
            if isinstance(s[1], str) and s[1] not in params and s[1] not in self.header:
                raise Invalid("undefined", s[1])
            self._check_names(s[2], params)
        elif tag == "sub":
            if isinstance(s[1], str) and s[1] not in params and s[1] not in self.header:
                raise Invalid("undefined", s[1])
            for x in s[2]:
                self._check_names(x, params)

    def check_static(self):
        """References inside macro bodies that do not depend on a parameter must be valid even
        if the macro is never called (they are fixed by the header alone)."""
        for m in self.prog["macros"]:
            params = set(m["params"])
            for s in walk([m["body"]]):
                if s[0] == "g":
                    for a in s[2]:
                        if a[0] == "id" and a[1] not in params:
                            self.eval_arg(a, None)
                        elif a[0] == "ix" and a[1] not in params and not (isinstance(a[2], str) and a[2] in params):
                            self.eval_arg(a, None)
                elif s[0] in ("loop", "sub") and not (isinstance(s[1], str) and s[1] in params):
                    self._count(s[1], None, "count")

    def validate(self):
        """Whole-program validity: header, main body (macros expanded), static parts of macro bodies."""
        self.check_static()
        return self.meaning()

    def declarations(self):
        """Header data by value: lets, register size, every alias's index set, macro signatures."""
        d = {
            "lets": [(n, self.let_value(n)) for n in self.let_order],
            "reg": None if self.prog["reg"] is None else (self.prog["reg"][0], self.reg_size()),
            "maps": [(m[0],) + self.elems(m[0])[:2] for m in self.prog["maps"]],
            "macros": [(m["name"], tuple(m["params"])) for m in self.prog["macros"]],
            "usepulses": list(self.prog["usepulses"]),
        }
        return d


# ---------------------------------------------------------------------- normalisation


def norm(node):
    """Identify only what every reading of Jaqal identifies: splice same-kind non-subcircuit
    blocks, unwrap single-statement non-subcircuit blocks, drop empty non-subcircuit blocks."""
    tag = node[0]
    if tag == "g":
        return node
    if tag == "loop":
        return ("loop", node[1], norm(node[2]))
    if tag == "sub":
        kids = []
        for k in node[2]:
            k = norm(k)
            if k[0] in ("seq", "par") and len(k[1]) == 0:
                continue
            if k[0] == "seq":
                kids.extend(k[1])
            else:
                kids.append(k)
        return ("sub", node[1], tuple(kids))
    kids = []
    for k in node[1]:
        k = norm(k)
        if k[0] in ("seq", "par") and len(k[1]) == 0:
            continue
        if k[0] == tag:
            kids.extend(k[1])
        else:
            kids.append(k)
    if len(kids) == 1:
        return kids[0]
    return (tag, tuple(kids))


def same_number(a, b, strict=False):
    if strict:
        return type(a) is type(b) and repr(a) == repr(b)
    return a == b


def same_meaning(a, b, strict=False):
    """Structural equality of meaning trees; numbers by value (1 == 1.0) unless strict."""
    if a[0] != b[0]:
        return False
    tag = a[0]
    if tag == "g":
        if a[1] != b[1] or len(a[2]) != len(b[2]):
            return False
        for x, y in zip(a[2], b[2]):
            if x[0] != y[0]:
                return False
            if x[0] == "num":
                if not same_number(x[1], y[1], strict):
                    return False
            elif x[1] != y[1]:
                return False
        return True
    if tag == "loop":
        return a[1] == b[1] and same_meaning(a[2], b[2], strict)
    if tag == "sub":
        return a[1] == b[1] and len(a[2]) == len(b[2]) and all(same_meaning(x, y, strict) for x, y in zip(a[2], b[2]))
    return len(a[1]) == len(b[1]) and all(same_meaning(x, y, strict) for x, y in zip(a[1], b[1]))


def show(node, depth=0):
    """Compact one-line rendering of a meaning tree (for messages)."""
    tag = node[0]
    if tag == "g":
        return node[1] + "(" + ",".join(f"{k}:{v}" for k, v in node[2]) + ")"
    if tag == "loop":
        return f"loop{node[1]}[{show(node[2])}]"
    if tag == "sub":
        return f"sub{node[1]}{{" + ";".join(show(k) for k in node[2]) + "}"
    o, c = ("{", "}") if tag == "seq" else ("<", ">")
    return o + (";" if tag == "seq" else "|").join(show(k) for k in node[1]) + c


# ---------------------------------------------------------------------- structural helpers


def walk(stmts):
    """Yield every statement (pre-order) in a list of statements."""
    for s in stmts:
        yield s
        if s[0] in ("seq", "par"):
            yield from walk(s[1])
        elif s[0] == "loop":
            yield from walk([s[2]])
        elif s[0] == "sub":
            yield from walk(s[2])


def all_stmts(prog):
    for m in prog["macros"]:
        yield from walk([m["body"]])
    yield from walk(prog["body"])


def depth_of(stmts):
    d = 0
    for s in stmts:
        if s[0] in ("seq", "par"):
            d = max(d, 1 + depth_of(s[1]))
        elif s[0] == "loop":
            d = max(d, 1 + depth_of([s[2]]))
        elif s[0] == "sub":
            d = max(d, 1 + depth_of(s[2]))
    return d


def size_of(prog):
    return sum(1 for _ in all_stmts(prog)) + len(prog["lets"]) + len(prog["maps"]) + len(prog["macros"])


# ---------------------------------------------------------------------- well-formedness


def _wf_int(x, allow_none=False):
    return (allow_none and x is None) or is_int(x) or (isinstance(x, str) and x != "")


def _wf_stmt(s, block_only=False):
    if not isinstance(s, list) or not s or not isinstance(s[0], str):
        return False
    tag = s[0]
    if tag in ("seq", "par"):
        return len(s) == 2 and isinstance(s[1], list) and all(_wf_stmt(x) for x in s[1])
    if block_only:
        return False
    if tag == "g":
        if len(s) != 3 or not isinstance(s[1], str) or not s[1] or not isinstance(s[2], list):
            return False
        for a in s[2]:
            if not isinstance(a, list) or not a:
                return False
            if a[0] == "n":
                if len(a) != 2 or not is_num(a[1]):
                    return False
            elif a[0] == "id":
                if len(a) != 2 or not isinstance(a[1], str) or not a[1]:
                    return False
            elif a[0] == "ix":
                if len(a) != 3 or not isinstance(a[1], str) or not a[1] or not _wf_int(a[2]):
                    return False
            else:
                return False
        return True
    if tag == "loop":
        return len(s) == 3 and _wf_int(s[1]) and _wf_stmt(s[2], block_only=True)
    if tag == "sub":
        return len(s) == 3 and _wf_int(s[1], True) and isinstance(s[2], list) and all(_wf_stmt(x) for x in s[2])
    if tag == "branch":
        return len(s) == 2 and isinstance(s[1], list)
    return False


def wellformed(prog):
    """Structural validity of the Prog data structure itself (used by the shrinker)."""
    try:
        if set(prog) < {"usepulses", "lets", "reg", "maps", "macros", "body"}:
            return False
        if not all(isinstance(u, str) and u for u in prog["usepulses"]):
            return False
        for l in prog["lets"]:
            if len(l) != 2 or not isinstance(l[0], str) or not l[0] or not is_num(l[1]):
                return False
        if prog["reg"] is not None:
            if len(prog["reg"]) != 2 or not isinstance(prog["reg"][0], str) or not prog["reg"][0] or not _wf_int(prog["reg"][1]):
                return False
        for m in prog["maps"]:
            if len(m) != 3 or not all(isinstance(x, str) and x for x in m[:2]):
                return False
            sel = m[2]
            if sel is not None:
                if sel[0] == "i":
                    if len(sel) != 2 or not _wf_int(sel[1]):
                        return False
                elif sel[0] == "s":
                    if len(sel) != 4 or not all(_wf_int(x, True) for x in sel[1:]):
                        return False
                else:
                    return False
        for m in prog["macros"]:
            if not isinstance(m["name"], str) or not m["name"] or not all(isinstance(x, str) and x for x in m["params"]):
                return False
            if not _wf_stmt(m["body"], block_only=True):
                return False
        return all(_wf_stmt(s) for s in prog["body"])
    except (TypeError, KeyError, IndexError, AttributeError):
        return False
