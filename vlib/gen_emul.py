"""Generator of EXECUTABLE programs over the harness's native gate sets (vlib/gates.py).

Valid by construction where cheap (distinct qubits per gate for header-resolvable references,
prepare/measure bracketing, legal nesting) and repaired by deletion where the reference
semantics finds a gate with a repeated qubit or a parallel block with overlapping branches
(these depend on macro arguments): the offending main-body statement is removed and the
program re-validated; nothing is rejected wholesale.
"""

from .gen import Builder, Cfg, Chooser, overrides, is_int
from .model import Ref, Invalid, empty_prog
from . import refexec
from .gates import KINDS

GATE_NAMES = [g for g in KINDS if g not in ("prepare_all", "measure_all")]


def kinds_table(idle=True, nou=True):
    t = {}
    for name, kinds in KINDS.items():
        if name == "NoU" and not nou:
            continue
        t[name] = list(kinds)
        if idle and name not in ("prepare_all", "measure_all"):
            t["I_" + name] = list(kinds)
    return t


class EmulBuilder(Builder):
    def known_index(self, a):
        sc = self.sc
        if a[0] == "id":
            return sc.singles.get(a[1]) if sc.visible(a[1]) else None
        if a[0] == "ix" and a[1] in sc.regs and sc.visible(a[1]):
            i = a[2]
            if isinstance(i, str):
                if i in sc.lets and sc.visible(i) and is_int(sc.lets[i]):
                    i = sc.lets[i]
                else:
                    return None
            return sc.regs[a[1]][i]
        return None

    def gate_stmt(self, allow_sub_macros):
        for _ in range(6):
            s = super().gate_stmt(allow_sub_macros)
            if s is None:
                continue
            known = [self.known_index(a) for a in s[2] if a[0] in ("id", "ix")]
            known = [k for k in known if k is not None]
            if len(set(known)) == len(known):
                return s
        return None

    def section_items(self):
        return self.block_items("seq", 2, True, False, self.cfg.max_block)

    def sections(self, depth, n_max, allow_seq):
        ch = self.ch
        out = []
        for _ in range(ch.int(0, n_max)):
            kinds = ["sub", "sub", "pm"]
            if depth < 3:
                kinds += ["loop", "loop"]
            if allow_seq:
                kinds.append("seq")
            subm = [m for m in self.sc.macros if m[2]]
            if subm:
                kinds.append("macro")
            k = ch.pick(kinds)
            if k == "sub":
                cnt = None
                if ch.int(0, 2) == 0:
                    cnt = self.count() if ch.bool() else ch.int(0, 200)
                out.append(["sub", cnt, self.section_items()])
                self.flag("subcircuit")
            elif k == "pm":
                out.append(["g", "prepare_all", []])
                out.extend(self.section_items())
                out.append(["g", "measure_all", []])
                self.flag("explicit-section")
            elif k == "loop":
                out.append(["loop", self.count(), ["seq", self.sections(depth + 1, 2, False)]])
            elif k == "seq":
                out.append(["seq", self.sections(depth + 1, 2, False)])
            else:
                name, roles, _hs = ch.pick(subm)
                args = [self.macro_arg(r, c) for r, c in roles]
                if all(a is not None for a in args):
                    out.append(["g", name, args])
        return out

    def emul_macro(self, prog, name):
        ch, cfg, sc = self.ch, self.cfg, self.sc
        if ch.int(0, 3) > 0:
            # pure macro: gates only (may be called inside subcircuits)
            saved = cfg.sub
            cfg.sub = False
            try:
                self.macro(prog, name)
            finally:
                cfg.sub = saved
            return
        # section macro: body is a sequence of whole subcircuits
        params, roles = [], []
        maxreg = max(len(el) for el in sc.regs.values())
        for _ in range(ch.int(0, 2)):
            pn = ch.pick(["p", "o", "e"] + list(sc.lets)[:1])
            if pn in params:
                continue
            role = ch.pick(["qubit", "num", "idx", "count"])
            params.append(pn)
            roles.append((role, ch.int(1, maxreg) if role == "idx" else None))
        saved = sc.params
        sc.params = dict(zip(params, roles))
        items = []
        for _ in range(ch.int(1, 2)):
            if ch.bool():
                items.append(["sub", None if ch.bool() else self.count(), self.section_items()])
            else:
                items.append(["g", "prepare_all", []])
                items.extend(self.section_items())
                items.append(["g", "measure_all", []])
        sc.params = saved
        prog["macros"].append({"name": name, "params": params, "body": ["seq", items]})
        sc.macros.append((name, roles, True))
        self.flag("section-macro")


def _remove(stmts, target):
    for i, s in enumerate(stmts):
        if s is target:
            del stmts[i]
            return True
        if s[0] in ("seq", "par") and _remove(s[1], target):
            return True
        if s[0] == "loop" and _remove(s[2][1], target):
            return True
        if s[0] == "sub" and _remove(s[2], target):
            return True
    return False


def repair(prog, env=None):
    """Delete main-body statements until the reference finds no repeated-qubit gate and no
    overlapping parallel block.  Returns number of deletions, or None if it gave up."""
    ndel = 0
    for _ in range(20):
        try:
            ref = Ref(prog, env)
            ref.check_static()
            n = ref.reg_size()
            tree = refexec.expand(ref)
        except Invalid:
            return None
        errs = refexec.static_errors(tree, n)
        if not errs:
            return ndel
        done = set()
        for _kind, culprit in errs:
            if culprit is not None and id(culprit) not in done:
                done.add(id(culprit))
                if _remove(prog["body"], culprit):
                    ndel += 1
    return None


def macro_static_ok(prog, env=None):
    """Macro bodies must themselves be free of statically repeated qubits in header-only gates
    (they are checked again per call through `repair`)."""
    return True


def make_emulable(ch, max_reg=5, max_macros=3, with_env=True, general_numbers=False, sub_macros=True, nou=True, par=True):
    cfg = Cfg(
        natives=kinds_table(idle=True, nou=nou),
        reg_args=False,
        usepulses=False,
        general_numbers=general_numbers,
        max_reg=max_reg,
        max_macros=max_macros,
        max_depth=4,
        max_block=4,
        macro_bias=2,
        par=par,
    )
    b = EmulBuilder(ch, cfg)
    prog = empty_prog()
    b.header(prog)
    for mn in ch.sample(["m0", "m1", "m2", "F", "G"], ch.int(0, max_macros)):
        if sub_macros:
            b.emul_macro(prog, mn)
        else:
            saved = cfg.sub
            cfg.sub = False
            b.macro(prog, mn)
            cfg.sub = saved
    prog["body"] = b.sections(0, 4, True)
    env = {}
    if with_env and ch.bool():
        env = overrides(ch, prog, cfg.natives, wide=False)
    ndel = None
    for _ in range(3):
        a = repair(prog, {})
        b_ = repair(prog, env) if env else 0
        if a is None or b_ is None:
            if env:
                env = {}
                continue
            ndel = None
            break
        ndel = (ndel or 0) + a + b_
        if a == 0 or not env:
            break
    if ndel is None:
        prog["body"] = []
        prog["macros"] = []
        ndel = -1
    return {"prog": prog, "env": env, "gate_seed": ch.int(0, 10**6), "repaired": ndel, "stats": b.stats}


# ------------------------------------------------------------------------------ prepare/measure placements


def make_pm(ch, n_qubits=2, zero_loops=True):
    """Arbitrary placements of prepare_all / measure_all / subcircuit blocks / X gates over
    nested sequential blocks, single-branch parallel blocks, loops (0, 1, >1) and parameterless
    macros.  NOT filtered for acceptance; references are valid and parallel blocks have one
    branch, so the only question is the bracket structure."""
    counts = [0, 1, 1, 2, 3] if zero_loops else [1, 1, 2, 3]

    def items(depth, in_sub, in_par, top, macros):
        out = []
        for _ in range(ch.int(0, 4)):
            c = ch.int(0, 99)
            if c < 18:
                out.append(["g", "prepare_all", []])
            elif c < 36:
                out.append(["g", "measure_all", []])
            elif c < 52:
                out.append(["g", ch.pick(["X", "X", "I_X"]), [["ix", "q", ch.int(0, n_qubits - 1)]]])
            elif c < 68 and depth > 0:
                if ch.int(0, 3) == 0:
                    # the loop body is itself a single-branch parallel block: `loop 2 < measure_all >`
                    inner = items(depth - 1, in_sub, True, False, macros)
                    if len(inner) == 1 and inner[0][0] == "g" and ch.bool():
                        out.append(["loop", ch.pick(counts), ["par", [inner[0]]]])
                    else:
                        out.append(["loop", ch.pick(counts), ["par", [["seq", inner]]]])
                else:
                    out.append(["loop", ch.pick(counts), ["seq", items(depth - 1, in_sub, in_par, False, macros)]])
            elif c < 80 and depth > 0 and not in_sub and not in_par:
                body = [s for s in items(depth - 1, True, in_par, False, macros) if not (s[0] == "g" and s[1] in ("prepare_all", "measure_all")) or ch.int(0, 9) == 0]
                out.append(["sub", None if ch.bool() else ch.int(0, 5), body])
            elif c < 90 and depth > 0:
                inner = items(depth - 1, in_sub, in_par or not top, False, macros)
                if top:
                    out.append(["seq", inner])
                else:
                    out.append(["par", [["seq", inner]]])
            elif macros:
                cand = [m for m in macros if not (m[1] and (in_sub or in_par))]
                if cand:
                    out.append(["g", ch.pick(cand)[0], []])
        return out

    prog = empty_prog()
    prog["reg"] = ["q", n_qubits]
    macros = []
    for mn in ch.sample(["m0", "m1"], ch.int(0, 2)):
        body = items(2, False, False, False, macros)
        has_sub = any(s[0] == "sub" for s in __import__("vlib.model", fromlist=["walk"]).walk(body)) or any(
            s[0] == "g" and any(s[1] == m[0] and m[1] for m in macros) for s in __import__("vlib.model", fromlist=["walk"]).walk(body)
        )
        prog["macros"].append({"name": mn, "params": [], "body": ["seq", body]})
        macros.append((mn, has_sub))
    prog["body"] = items(ch.pick([3, 3, 4]), False, False, True, macros)
    if ch.int(0, 5) == 0:
        # template: sections inside loops that are wrapped in single-branch parallel / sequential
        # blocks at several depths (the walker has to find loops that are not direct children)
        g = lambda: ["g", "X", [["ix", "q", ch.int(0, n_qubits - 1)]]]

        def section():
            if ch.bool():
                return [["sub", None, [g()] * ch.int(0, 2)]] if False else [["g", "prepare_all", []]] + [g()] * ch.int(0, 2) + [["g", "measure_all", []]]
            return [["g", "prepare_all", []], g(), ["g", "measure_all", []]]

        def nest(depth):
            body = []
            for _ in range(ch.int(1, 2)):
                if depth > 0 and ch.int(0, 2) > 0:
                    inner = ["loop", ch.pick(counts), ["seq", nest(depth - 1)]]
                    if ch.bool():
                        inner = ["par", [["seq", [inner]]]]
                    body.append(inner)
                else:
                    body.extend(section())
            return body

        prog["body"] = [["loop", ch.pick([2, 2, 3, 1]), ["seq", nest(2)]]] + (prog["body"] if ch.int(0, 2) == 0 else [])
    elif ch.int(0, 4) == 0:
        # template aimed at the loop rule: a subcircuit opened before / inside a loop and closed inside it
        g = lambda: ["g", "X", [["ix", "q", ch.int(0, n_qubits - 1)]]]
        inner = []
        if ch.bool():
            inner += [["g", "prepare_all", []], g()]
        inner += [g()] * ch.int(0, 1) + [["g", "measure_all", []]]
        if ch.bool():
            inner += [["g", "prepare_all", []], g()]
            if ch.bool():
                inner += [["g", "measure_all", []]]
        loop = ["loop", ch.pick(counts), ["seq", inner]]
        if ch.bool():
            loop = ["loop", ch.pick(counts), ["seq", [loop]]]
        pre = [["g", "prepare_all", []], g()] if ch.int(0, 3) > 0 else []
        post = [["g", "measure_all", []]] if ch.bool() else []
        wrapped = pre + [loop] + post
        if ch.int(0, 3) == 0:
            wrapped = [["seq", wrapped]]
        prog["body"] = wrapped + (prog["body"] if ch.bool() else [])
    return {"prog": prog, "env": {}, "gate_seed": 0}
