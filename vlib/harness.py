"""Common runner: sharded Hypothesis exploration, failure bucketing, shrinking, replay files,
known findings, evidence.

A check module defines `PROPERTY`, `RULE`, and `parts()` returning a list of Part objects.
`Part.run(case)` returns an info dict {"nontrivial": bool, "classes": [...], "key": str?}
or raises Violation.  Anything else escaping from Part.run is a harness error (exit 2),
never a violation.
"""

import hashlib
import json
import os
import signal
import sys
import time
import traceback

from . import VERIF_DIR, REPO_SRC, setup_paths

SCRATCH_TREE = os.path.realpath(REPO_SRC) != os.path.realpath("/repo/src")

setup_paths()

import hypothesis  # noqa: E402
from hypothesis import HealthCheck, Phase, given, settings  # noqa: E402

KNOWN_FILE = os.path.join(VERIF_DIR, "known_findings.json")


class Violation(Exception):
    """The property is violated by this case."""

    def __init__(self, kind, detail="", where=""):
        super().__init__(f"{kind}: {detail}")
        self.kind = kind
        self.detail = str(detail)
        self.where = where

    def signature(self, part):
        s = f"{part}:{self.kind}"
        if self.where:
            s += f":{self.where}"
        return s


class HarnessError(Exception):
    pass


class Skip(Exception):
    """Case outside the property's domain (counted, never a verdict)."""


def innermost_repo_frame(exc):
    """'file.py:function' of the innermost traceback frame inside the code under test."""
    tb = exc.__traceback__
    best = None
    while tb is not None:
        fn = tb.tb_frame.f_code.co_filename
        if fn.startswith(REPO_SRC) or "/jaqalpaq/" in fn:
            best = f"{os.path.basename(fn)}:{tb.tb_frame.f_code.co_name}"
        tb = tb.tb_next
    return best


def guard(fn, *args, allowed=None, what="call", **kwargs):
    """Call into the code under test.  Returns ("ok", result) or ("err", exc) for an allowed
    exception type; any other exception that passed through a frame of the code under test
    is a Violation (wrong exception type); exceptions purely from harness code propagate."""
    from jaqalpaq.error import JaqalError

    allowed = allowed or (JaqalError,)
    try:
        return ("ok", fn(*args, **kwargs))
    except allowed as e:
        return ("err", e)
    except (Violation, HarnessError, BudgetExceeded, KeyboardInterrupt):
        raise
    except RecursionError as e:
        raise Violation("exception", f"{what}: RecursionError", where="RecursionError") from e
    except Exception as e:
        fr = innermost_repo_frame(e)
        if fr is None:
            raise
        raise Violation(
            "exception",
            f"{what}: {type(e).__name__}: {e}",
            where=f"{type(e).__name__}@{fr}",
        ) from e


# ------------------------------------------------------------------------------ step budget


class BudgetExceeded(BaseException):
    pass


_TOOL = 4
_budget = {"n": 0, "limit": 0, "on": False, "registered": False}


def _on_line(code, line):
    fn = code.co_filename
    if ("jaqalpaq" not in fn and "/sly/" not in fn) or fn.endswith("emulator/unitary.py"):
        # not code under test, or the emulator's numeric kernel (bounded for-range loops only,
        # by far the hottest code): switch the event off for this location for good
        return sys.monitoring.DISABLE
    _budget["n"] += 1
    if _budget["on"] and _budget["n"] > _budget["limit"]:
        _budget["on"] = False
        raise BudgetExceeded()


class step_budget:
    """Deterministic non-termination detector: counts LINE events in code under test."""

    def __init__(self, limit):
        self.limit = int(limit)

    def __enter__(self):
        mon = sys.monitoring
        if not _budget["registered"]:
            mon.use_tool_id(_TOOL, "verif-budget")
            mon.register_callback(_TOOL, mon.events.LINE, _on_line)
            _budget["registered"] = True
        _budget["n"] = 0
        _budget["limit"] = self.limit
        _budget["on"] = True
        mon.set_events(_TOOL, mon.events.LINE)
        return self

    def __exit__(self, et, ev, tb):
        _budget["on"] = False
        sys.monitoring.set_events(_TOOL, 0)
        self.used = _budget["n"]
        return False


# ------------------------------------------------------------------------------ parts


class Part:
    def __init__(self, name, strategy, run, quick, thorough, min_nontrivial=0.0, exhaustive=None, shards=None):
        self.name = name
        self.strategy = strategy
        self.run = run
        self.quick = quick
        self.thorough = thorough
        self.min_nontrivial = min_nontrivial
        self.exhaustive = exhaustive  # optional: callable(tier) -> iterable of cases (finite domain)
        self.shards = shards


def canon(case):
    return json.dumps(case, sort_keys=True, default=repr)


def case_hash(s):
    return hashlib.blake2b(s.encode(), digest_size=8).digest()


def mix_seed(*parts):
    h = hashlib.sha256("|".join(str(p) for p in parts).encode()).digest()
    return int.from_bytes(h[:8], "big")


def load_known(prop):
    if not os.path.exists(KNOWN_FILE):
        return []
    with open(KNOWN_FILE) as f:
        data = json.load(f)
    return [k for k in data.get("findings", []) if k.get("property") == prop]


class Collector:
    def __init__(self, part, known):
        self.part = part
        self.known = known
        self.evals = 0
        self.skipped = 0
        self.nontrivial = set()
        self.nt_evals = 0
        self.classes = {}
        self.samples = []
        self.failures = {}  # signature -> (size, case, detail, origin)
        self.excluded = {}
        self.origin = None  # the shard's arguments: with the case's index, enough to re-run its history
        self.limit = None  # replay of a history: only the first `limit` cases are executed

    def run_case(self, case):
        self.evals += 1
        if self.limit is not None and self.evals > self.limit:
            return
        _publish_case(case)
        try:
            self._run_case(case)
        finally:
            if _WATCH["hb"] is not None:
                _WATCH["hb"].value = 0.0

    def _run_case(self, case):
        try:
            info = self.part.run(case) or {}
        except Skip:
            self.skipped += 1
            return
        except Violation as v:
            self.on_violation(case, v)
            return
        except BudgetExceeded:
            self.on_violation(case, Violation("nontermination", "step budget exceeded"))
            return
        for c in info.get("classes", ()):
            self.classes[c] = self.classes.get(c, 0) + 1
        if info.get("nontrivial"):
            self.nt_evals += 1
            key = info.get("key") or canon(case)
            self.nontrivial.add(case_hash(key))
            if len(self.samples) < 6:
                self.samples.append(info.get("sample", case))
        elif not self.samples and self.evals > 50:
            pass

    def on_violation(self, case, v):
        sig = v.signature(self.part.name)
        for k in self.known:
            if k["signature"] == sig:
                self.excluded[k["id"]] = self.excluded.get(k["id"], 0) + 1
                return
        size = len(canon(case))
        cur = self.failures.get(sig)
        if cur is None or size < cur[0]:
            self.failures[sig] = (size, case, v.detail, {"shard": list(self.origin), "index": self.evals} if self.origin else None)


def _hyp_settings(n):
    return settings(
        max_examples=max(1, n),
        database=None,
        deadline=None,
        derandomize=False,
        report_multiple_bugs=False,
        phases=[Phase.generate],
        suppress_health_check=[HealthCheck.too_slow, HealthCheck.data_too_large, HealthCheck.large_base_example],
        print_blob=False,
    )


# Wall-clock watchdog.  The deterministic step budget decides termination of Python code; a hang
# INSIDE C code (e.g. catastrophic backtracking in the regex engine) fires no line events, holds
# the GIL and cannot be interrupted by a signal handler or seen by a thread of the same process.
# Each shard therefore publishes a heartbeat (shared double: its own CPU clock when the current
# case started) and the current case (a small file, rewritten per case); the PARENT watches the
# shard's consumed CPU time in /proc: when one case has burnt CASE_WALL CPU-seconds the shard is
# killed and the case is re-run alone in a fresh process under a CPU-time limit (RLIMIT_CPU) of
# CONFIRM_WALL seconds; only if that limit is hit too is it reported as non-terminating (typical
# cases take milliseconds of CPU, so these bounds leave 4-5 orders of magnitude of slack); if the
# fresh process finishes, the shard is inconclusive (exit 2).  CPU time, not wall-clock time: the
# sandbox's clock jumps when the machine is paused or heavily loaded (a first wall-clock version
# misfired on a 30 ms case during a thorough run), CPU time does not.
_WATCH = {"hb": None, "file": None}
CASE_WALL = float(os.environ.get("VERIF_CASE_WALL", "120"))
CONFIRM_WALL = float(os.environ.get("VERIF_CONFIRM_WALL", "240"))


def _publish_case(case):
    f = _WATCH["file"]
    if f is not None:
        f.seek(0)
        f.write(json.dumps(case, default=repr))
        f.truncate()
        f.flush()
    if _WATCH["hb"] is not None:
        _WATCH["hb"].value = time.process_time() + 1e-9


_CLK_TCK = os.sysconf("SC_CLK_TCK")


def _proc_cpu(pid):
    """CPU seconds (user + system) consumed so far by process pid, from /proc."""
    try:
        with open(f"/proc/{pid}/stat") as f:
            fields = f.read().rsplit(")", 1)[1].split()
        return (int(fields[11]) + int(fields[12])) / _CLK_TCK
    except Exception:
        return None


def _shard_main(args, base, hb):
    import pickle

    _WATCH["hb"] = hb
    _WATCH["file"] = open(base + ".case.json", "w")
    res = _run_shard(args)
    hb.value = 0.0
    with open(base + ".pkl", "wb") as f:
        pickle.dump(res, f)


def _confirm_hang(job, base):
    """The shard was killed because one case ran too long: re-run that case alone."""
    import subprocess

    modname, part_name = job[0], job[1]
    mod = __import__(modname, fromlist=["x"])
    prop = mod.PROPERTY
    try:
        with open(base + ".case.json") as f:
            case = json.load(f)
    except Exception:
        return {"part": part_name, "error": "a shard exceeded the per-case wall clock and its current case could not be read (inconclusive)"}
    body = {
        "property": prop,
        "part": part_name,
        "signature": f"{part_name}:nontermination-wallclock",
        "detail": f"case did not finish within {CASE_WALL:.0f} CPU-seconds in its shard nor within {CONFIRM_WALL:.0f} CPU-seconds alone in a fresh process (no line events: the time is spent inside C code)",
        "case": case,
    }
    path = base + ".hangcase.json"
    with open(path, "w") as f:
        json.dump(body, f, default=repr)
    import resource

    def limit():
        resource.setrlimit(resource.RLIMIT_CPU, (int(CONFIRM_WALL), int(CONFIRM_WALL) + 5))

    try:
        r = subprocess.run(
            [sys.executable, "-m", "vlib.run", modname.rsplit(".", 1)[1], "--replay-inner", path],
            cwd=VERIF_DIR,
            timeout=CONFIRM_WALL * 20,
            capture_output=True,
            preexec_fn=limit,
        )
    except subprocess.TimeoutExpired:
        return {"part": part_name, "error": "confirmation run neither finished nor used its CPU budget within the wall-clock fallback (inconclusive)"}
    if r.returncode in (-signal.SIGXCPU, -signal.SIGKILL):
        return {"part": part_name, "error": None, "hang": body}
    return {"part": part_name, "error": "a case exceeded the per-case wall clock in its shard but finished alone in a fresh process (inconclusive):\n" + json.dumps(body)[:1500]}


def _run_jobs(jobs, ncpu):
    """Run every shard in its own process (at most ncpu at a time); returns list of results."""
    import pickle
    import shutil
    import tempfile
    from multiprocessing import get_context

    ctx = get_context("fork")
    tmp = tempfile.mkdtemp(prefix="vlib_run_")
    try:
        pending = list(enumerate(jobs))
        running = {}
        results = [None] * len(jobs)
        confirmed_parts = set()  # parts with a confirmed hang: further over-time shards are just stopped
        tick = 0
        while pending or running:
            while pending and len(running) < ncpu:
                i, job = pending.pop(0)
                hb = ctx.Value("d", 0.0, lock=False)
                p = ctx.Process(target=_shard_main, args=(job, os.path.join(tmp, str(i)), hb))
                p.start()
                running[i] = (p, hb)
            time.sleep(0.02)
            tick += 1
            for i, (p, hb) in list(running.items()):
                base = os.path.join(tmp, str(i))
                if p.exitcode is None:
                    start_cpu = hb.value
                    cpu = _proc_cpu(p.pid) if (start_cpu and tick % 25 == 0) else None
                    # re-read the heartbeat: the case must still be the same one
                    if cpu is not None and hb.value == start_cpu and cpu - start_cpu > CASE_WALL:
                        p.kill()
                        p.join()
                        del running[i]
                        if jobs[i][1] in confirmed_parts:
                            results[i] = {"part": jobs[i][1], "error": None, "hang_dup": True}
                        else:
                            results[i] = _confirm_hang(jobs[i], base)
                            if results[i].get("hang"):
                                confirmed_parts.add(jobs[i][1])
                                # cases of this part not started yet would only repeat the finding
                                pending = [(j, jb) for j, jb in pending if jb[1] != jobs[i][1]]
                                for j in range(len(jobs)):
                                    if results[j] is None and j not in running and jobs[j][1] == jobs[i][1]:
                                        results[j] = {"part": jobs[j][1], "error": None, "hang_dup": True}
                    continue
                p.join()
                del running[i]
                if os.path.exists(base + ".pkl"):
                    with open(base + ".pkl", "rb") as f:
                        results[i] = pickle.load(f)
                else:
                    results[i] = {"part": jobs[i][1], "error": f"shard process died with exit code {p.exitcode}"}
        return results
    finally:
        shutil.rmtree(tmp, ignore_errors=True)


def _run_shard(args, limit=None):
    """Worker: run one part of one check on one shard; returns picklable summary.  With `limit`
    only the first `limit` cases are executed (replay of a history-dependent failure)."""
    modname, part_name, n, seed, shard, nshards, tier = args
    os.environ["VERIF_TIER"] = tier
    signal.signal(signal.SIGALRM, _alarm)
    signal.alarm(int(os.environ.get("VERIF_SHARD_TIMEOUT", "3000")))
    try:
        mod = __import__(modname, fromlist=["x"])
        part = [p for p in mod.parts() if p.name == part_name][0]
        col = Collector(part, load_known(mod.PROPERTY))
        col.origin = args
        col.limit = limit
        t0 = time.time()
        if part.exhaustive is not None and part.strategy is None:
            for i, case in enumerate(part.exhaustive(tier)):
                if i % nshards == shard:
                    col.run_case(case)
        else:

            @hypothesis.seed(mix_seed(seed, modname, part_name, shard))
            @_hyp_settings(n)
            @given(part.strategy)
            def test(case):
                col.run_case(case)

            test()
        return {
            "part": part_name,
            "evals": col.evals,
            "skipped": col.skipped,
            "nontrivial": col.nontrivial,
            "nt_evals": col.nt_evals,
            "classes": col.classes,
            "samples": col.samples,
            "failures": col.failures,
            "excluded": col.excluded,
            "wall": time.time() - t0,
            "error": None,
        }
    except BaseException as e:  # harness error: report, never a violation
        return {"part": part_name, "error": "".join(traceback.format_exception(type(e), e, e.__traceback__))}
    finally:
        signal.alarm(0)


def _alarm(*_a):
    raise HarnessError("shard wall-clock backstop hit (inconclusive)")


# ------------------------------------------------------------------------------ shrinking


def shrink_case(part, case, sig, budget_s=120):
    """Greedy structural shrinking of a JSON case while Part.run still raises a Violation with
    the same signature.  Deterministic; no randomness."""
    t_end = time.time() + budget_s

    def fails(c):
        if isinstance(c, dict) and "prog" in c:
            from .model import wellformed

            if not wellformed(c["prog"]):
                return False
        try:
            part.run(c)
        except Violation as v:
            return v.signature(part.name) == sig
        except BudgetExceeded:
            return Violation("nontermination").signature(part.name) == sig
        except BaseException:
            return False
        return False

    def candidates(x):
        """Yield (path-free) smaller variants of x."""
        if isinstance(x, list):
            for i in range(len(x)):
                yield x[:i] + x[i + 1 :]
            for i, v in enumerate(x):
                if isinstance(v, list) and isinstance(x, list):
                    # hoist child's children
                    for w in v:
                        if isinstance(w, list):
                            yield x[:i] + [w] + x[i + 1 :]
                for v2 in candidates(v):
                    yield x[:i] + [v2] + x[i + 1 :]
        elif isinstance(x, dict):
            for k in x:
                for v2 in candidates(x[k]):
                    y = dict(x)
                    y[k] = v2
                    yield y
        elif isinstance(x, bool):
            if x:
                yield False
        elif isinstance(x, int):
            if x != 0:
                yield 0
            if abs(x) > 1:
                yield x // 2
                yield x - 1 if x > 0 else x + 1
        elif isinstance(x, float):
            if x != 0.0:
                yield 0.0
            if x != int(x) if abs(x) < 1e300 else False:
                yield float(int(x))

    cur = case
    if not fails(cur):
        return cur  # does not fail alone (history-dependent): nothing to shrink against
    improved = True
    while improved and time.time() < t_end:
        improved = False
        for cand in candidates(cur):
            if time.time() > t_end:
                break
            if len(canon(cand)) >= len(canon(cur)) and cand == cur:
                continue
            if fails(cand):
                cur = cand
                improved = True
                break
    return cur


# ------------------------------------------------------------------------------ main driver


def run_check(mod, tier="quick", seed=1, replay=None, only_part=None, replay_inner=None):

    prop = mod.PROPERTY
    t0 = time.time()
    parts = mod.parts()
    if only_part:
        parts = [p for p in parts if p.name == only_part]
    if replay_inner:
        return do_replay(mod, parts, replay_inner, inner=True)
    if replay:
        return do_replay(mod, parts, replay)

    known = load_known(prop)
    rc_regress, n_regress = replay_regressions(mod)
    ncpu = int(os.environ.get("VERIF_JOBS", "16"))
    jobs = []
    for p in parts:
        # thorough = the per-part thorough count x VERIF_THOROUGH_SCALE (default 4: about 5-10
        # minutes per property on 16 cores; bounded by case count, never by a clock)
        n = p.quick if tier == "quick" else p.thorough * int(os.environ.get("VERIF_THOROUGH_SCALE", "4"))
        shards = p.shards or (min(ncpu, 8) if tier == "quick" else ncpu)
        if n < 200:
            shards = min(shards, max(1, n // 25))
        per = -(-n // shards)
        for s in range(shards):
            jobs.append((mod.__name__, p.name, per, seed, s, shards, tier))
    # optional module hook, run once in the parent before the shards are forked (they inherit
    # what it computed)
    if hasattr(mod, "prepare"):
        mod.prepare([p.name for p in parts], ncpu)
    results = _run_jobs(jobs, ncpu)

    errors = [r for r in results if r.get("error")]
    if errors:
        sys.stdout.write("HARNESS-ERROR property=%s\n%s\n" % (prop, errors[0]["error"]))
        return 2

    hangs = [r["hang"] for r in results if r.get("hang")]
    results = [r for r in results if not r.get("hang") and not r.get("hang_dup")]
    by_part = {}
    for p in parts:
        by_part.setdefault(
            p.name,
            {"evals": 0, "skipped": 0, "nontrivial": set(), "nt_evals": 0, "classes": {}, "samples": [], "failures": {}, "excluded": {}},
        )
    for r in results:
        a = by_part.setdefault(
            r["part"],
            {"evals": 0, "skipped": 0, "nontrivial": set(), "nt_evals": 0, "classes": {}, "samples": [], "failures": {}, "excluded": {}},
        )
        a["evals"] += r["evals"]
        a["skipped"] += r["skipped"]
        a["nontrivial"] |= r["nontrivial"]
        a["nt_evals"] += r.get("nt_evals", 0)
        for k, v in r["classes"].items():
            a["classes"][k] = a["classes"].get(k, 0) + v
        if len(a["samples"]) < 4:
            a["samples"].extend(r["samples"][: 4 - len(a["samples"])])
        for sig, f in r["failures"].items():
            if sig not in a["failures"] or f[0] < a["failures"][sig][0]:
                a["failures"][sig] = f
        for k, v in r["excluded"].items():
            a["excluded"][k] = a["excluded"].get(k, 0) + v

    # known findings: re-confirm each listed witness on this tree
    part_by_name = {p.name: p for p in mod.parts()}
    known_lines = []
    for k in known:
        p = part_by_name.get(k["part"])
        if p is None:
            continue
        try:
            p.run(k["witness"])
            confirmed = False
        except Violation as v:
            confirmed = v.signature(p.name) == k["signature"]
        except BudgetExceeded:
            confirmed = Violation("nontermination").signature(p.name) == k["signature"]
        except Skip:
            confirmed = False
        if confirmed:
            known_lines.append(f"KNOWN-FINDING: property={prop} {k['id']}: {k['what']}")
    for line in known_lines:
        print(line)

    # violations: shrink + replay files
    nviol = 0 if rc_regress == 0 else 1
    rc = rc_regress
    for pname, a in by_part.items():
        for sig, (_size, case, detail, origin) in sorted(a["failures"].items()):
            p = part_by_name[pname]
            small = case
            if os.environ.get("VERIF_NO_SHRINK") != "1":
                try:
                    small = shrink_case(p, case, sig, budget_s=60 if tier == "quick" else 240)
                except Exception:
                    small = case
            alone = False
            try:
                p.run(small)
                d2 = detail
            except Violation as v:
                d2 = v.detail
                alone = v.signature(p.name) == sig
            except BudgetExceeded:
                d2 = detail
                alone = Violation("nontermination").signature(p.name) == sig
            except BaseException:
                d2 = detail
            # A case that failed in its shard but passes alone in this (fresh) process failed
            # because of what the cases before it left behind in the library: the replay file then
            # names the shard and the case's index, and replaying re-runs that history.
            # "alone" is decided in a FRESH process (this one has run the regression tier, other
            # shrinks and witnesses): the shrunk case first, else the case as found, else its history
            history = None
            path = write_replay(prop, pname, sig, small, d2)
            if not _fails_in_fresh_process(mod, path, sig):
                path = write_replay(prop, pname, sig, case, detail)
                if _fails_in_fresh_process(mod, path, sig):
                    small, d2 = case, detail
                else:
                    history = origin
                    path = write_replay(prop, pname, sig, case, detail, history)
                    small, d2 = case, detail
            print(f"VIOLATION property={prop} replay={path}")
            print(f"  signature: {sig}")
            if history:
                print(f"  note: history-dependent - the case passes when run alone in a fresh process; it failed as case {history['index']} of its shard, and the replay file re-runs that shard's cases up to it")
            print(f"  detail: {d2[:1500]}")
            nviol += 1
            rc = 1

    seen_h = set()
    for h in hangs:
        if h["signature"] in seen_h:
            continue
        seen_h.add(h["signature"])
        path = write_replay(prop, h["part"], h["signature"], h["case"], h["detail"])
        print(f"VIOLATION property={prop} replay={path}")
        print(f"  signature: {h['signature']}")
        print(f"  detail: {h['detail']}")
        nviol += 1
        rc = 1

    # vacuity guard
    vac = []
    for p in parts:
        a = by_part[p.name]
        eff = a["evals"] - a["skipped"]
        # the guard is on the fraction of non-trivial EVALUATIONS (the number of distinct ones
        # saturates in small input spaces as the case count grows)
        if p.min_nontrivial and eff > 0 and a["nt_evals"] < p.min_nontrivial * eff and not a["failures"] and not hangs:
            vac.append(f"{p.name}: {a['nt_evals']} non-trivial evaluations ({len(a['nontrivial'])} distinct) of {eff}")
    write_evidence(mod, tier, seed, by_part, parts, nviol, known_lines, time.time() - t0)
    if vac and rc == 0:
        print("HARNESS-ERROR property=%s vacuity guard: %s" % (prop, "; ".join(vac)))
        return 2
    tot = sum(a["evals"] for a in by_part.values())
    nt = sum(len(a["nontrivial"]) for a in by_part.values())
    print(f"{prop} {tier} seed={seed}: {tot} cases, {nt} distinct non-trivial, {nviol} violations, {time.time()-t0:.1f}s")
    return rc


def replay_regressions(mod):
    """Seconds-long replay tier: every saved shrunk failure of an earlier (repaired) defect is
    re-executed without Hypothesis; a failure is a violation again."""
    d = os.path.join(VERIF_DIR, "regress", mod.PROPERTY)
    rc, n = 0, 0
    if not os.path.isdir(d):
        return rc, n
    part_by_name = {p.name: p for p in mod.parts()}
    known = load_known(mod.PROPERTY)
    for fn in sorted(os.listdir(d)):
        if not fn.endswith(".json"):
            continue
        with open(os.path.join(d, fn)) as f:
            body = json.load(f)
        p = part_by_name.get(body["part"])
        if p is None:
            continue
        n += 1
        try:
            p.run(body["case"])
        except Skip:
            pass
        except (Violation, BudgetExceeded) as v:
            if isinstance(v, BudgetExceeded):
                v = Violation("nontermination", "step budget exceeded")
            sig = v.signature(p.name)
            if any(k["signature"] == sig for k in known):
                continue
            print(f"VIOLATION property={mod.PROPERTY} replay=regress/{mod.PROPERTY}/{fn}")
            print(f"  signature: {sig}")
            print(f"  detail: {v.detail[:1500]}")
            rc = 1
    return rc, n


def _fails_in_fresh_process(mod, path, sig):
    """Does the replay file at `path` report signature `sig` when replayed in a new process?"""
    import subprocess

    try:
        r = subprocess.run([sys.executable, "-m", "vlib.run", mod.PROPERTY, "--replay", path], cwd=VERIF_DIR, timeout=(CONFIRM_WALL + 60) * 20, capture_output=True, text=True)
    except subprocess.TimeoutExpired:
        return True
    if r.returncode != 1:
        return False
    return ("signature: " + sig) in r.stdout or "nontermination" in r.stdout


def write_replay(prop, part, sig, case, detail, history=None):
    d = os.path.join(VERIF_DIR, "replay" if not SCRATCH_TREE else "scratch/replay", prop)
    os.makedirs(d, exist_ok=True)
    body = {"property": prop, "part": part, "signature": sig, "detail": detail[:4000], "case": case}
    if history:
        body["history"] = history
    h = hashlib.sha1(canon({"part": part, "sig": sig}).encode()).hexdigest()[:12]
    path = os.path.join(d, f"{h}.json")
    with open(path, "w") as f:
        json.dump(body, f, indent=1, default=repr)
    return os.path.relpath(path, VERIF_DIR)


def do_replay(mod, parts, path, inner=False):
    if not inner:
        import subprocess

        import resource

        try:
            with open(path if os.path.isabs(path) else os.path.join(VERIF_DIR, path)) as f:
                is_history = bool(json.load(f).get("history"))
        except Exception:
            is_history = False
        cpu = int(CONFIRM_WALL) + 60 if not is_history else 4 * 3600

        def limit():
            resource.setrlimit(resource.RLIMIT_CPU, (cpu, cpu + 5))

        try:
            r = subprocess.run([sys.executable, "-m", "vlib.run", mod.PROPERTY, "--replay-inner", path], cwd=VERIF_DIR, timeout=(CONFIRM_WALL + 60) * 20, capture_output=True, text=True, preexec_fn=limit)
        except subprocess.TimeoutExpired:
            print("replay: inconclusive (neither finished nor used its CPU budget)")
            return 2
        if r.returncode in (-signal.SIGXCPU, -signal.SIGKILL):
            print(f"VIOLATION property={mod.PROPERTY} replay={path}")
            print(f"  signature: nontermination-wallclock (did not finish within {CONFIRM_WALL + 60:.0f} CPU-seconds)")
            return 1
        sys.stdout.write(r.stdout)
        if r.returncode not in (0, 1):
            sys.stdout.write(r.stderr[-3000:])
        return r.returncode
    with open(path if os.path.isabs(path) else os.path.join(VERIF_DIR, path)) as f:
        body = json.load(f)
    p = [q for q in mod.parts() if q.name == body["part"]][0]
    if body.get("history"):
        # re-run the shard the case came from, up to and including the case
        h = body["history"]
        res = _run_shard(tuple(h["shard"]), limit=int(h["index"]))
        if res.get("error"):
            sys.stdout.write("HARNESS-ERROR property=%s\n%s\n" % (mod.PROPERTY, res["error"]))
            return 2
        f = res["failures"].get(body["signature"])
        if f is not None:
            print(f"VIOLATION property={mod.PROPERTY} replay={path}")
            print(f"  signature: {body['signature']} (after the {f[3]['index'] - 1} cases that preceded it in its shard)")
            print(f"  detail: {f[2][:3000]}")
            return 1
        print(f"replay: {path} (a history of {h['index']} cases) passes on this tree")
        return 0
    try:
        p.run(body["case"])
    except Violation as v:
        print(f"VIOLATION property={mod.PROPERTY} replay={path}")
        print(f"  signature: {v.signature(p.name)}")
        print(f"  detail: {v.detail[:3000]}")
        return 1
    except BudgetExceeded:
        print(f"VIOLATION property={mod.PROPERTY} replay={path}")
        print("  signature: nontermination")
        return 1
    except Skip:
        print("replay: case is outside the property's domain on this tree")
        return 0
    print(f"replay: {path} passes on this tree")
    return 0


def write_evidence(mod, tier, seed, by_part, parts, nviol, known_lines, wall):
    prop = mod.PROPERTY
    evals = sum(a["evals"] for a in by_part.values())
    nt = sum(len(a["nontrivial"]) for a in by_part.values())
    samples = []
    for p in parts:
        for s in by_part[p.name]["samples"][:3]:
            samples.append({"part": p.name, "case": s})
    cov = {
        "evaluations": evals,
        "distinct_nontrivial": nt,
        "rule": mod.RULE,
        "samples": samples,
        "parts": {
            p.name: {
                "evaluations": by_part[p.name]["evals"],
                "outside_domain_skipped": by_part[p.name]["skipped"],
                "distinct_nontrivial": len(by_part[p.name]["nontrivial"]),
                "nontrivial_evaluations": by_part[p.name]["nt_evals"],
                "classes": dict(sorted(by_part[p.name]["classes"].items())),
                "excluded_known": by_part[p.name]["excluded"],
                "exhaustive": bool(p.exhaustive is not None and p.strategy is None),
            }
            for p in parts
        },
        "known_findings_reconfirmed": known_lines,
        "engine": f"hypothesis {hypothesis.__version__}",
        "code_under_test": REPO_SRC,
    }
    if all(p.exhaustive is not None and p.strategy is None for p in parts):
        cov["exhaustive"] = True
    ev = {
        "property_id": prop,
        "tier": tier,
        "seed": int(seed),
        "level": "exploration",
        "coverage": cov,
        "assumptions": getattr(mod, "ASSUMPTIONS", []),
        "wall_s": round(wall, 2),
        "violations": nviol,
    }
    # evidence/ describes runs against /repo itself; a run pointed at a scratch tree
    # (VERIF_REPO, used for seeded changes) writes to scratch/ (not committed)
    d = os.path.join(VERIF_DIR, "evidence" if not SCRATCH_TREE else "scratch/evidence")
    os.makedirs(d, exist_ok=True)
    with open(os.path.join(d, f"{prop}.json"), "w") as f:
        json.dump(ev, f, indent=1, default=repr)
