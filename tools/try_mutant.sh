#!/bin/sh
# Development helper: run checks against a seeded change WITHOUT touching /repo.
# usage: tools/try_mutant.sh <worktree> <patch.diff> <demo.py|-> <check ids...>
# The patch is applied inside the scratch worktree, checks run with VERIF_REPO=<worktree>,
# and the patch is reverted afterwards.
WT="$1"; PATCH="$2"; DEMO="$3"; shift 3
cd "$(dirname "$0")/.." || exit 2
git -C "$WT" checkout -q -- . || exit 2
git -C "$WT" apply "$PATCH" || { echo "PATCH DOES NOT APPLY"; exit 2; }
if [ "$DEMO" != "-" ]; then
  (cd "$WT" && PYTHONPATH="$WT/src" /venv/bin/python "$DEMO" >/dev/null 2>&1); echo "demo with patch: exit $?"
fi
for c in "$@"; do
  out=$(VERIF_REPO="$WT" VERIF_NO_SHRINK=1 /venv/bin/python -m vlib.run "$c" --tier quick 2>&1); rc=$?
  echo "== $c rc=$rc $(echo "$out" | tail -1)"
  echo "$out" | grep "signature:" | sort | uniq -c | head -8
done
rm -rf replay
git -C "$WT" checkout -q -- .
if [ "$DEMO" != "-" ]; then
  (cd "$WT" && PYTHONPATH="$WT/src" /venv/bin/python "$DEMO" >/dev/null 2>&1); echo "demo without patch: exit $?"
fi
