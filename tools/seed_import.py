#!/usr/bin/env python3
"""Development helper: confirm a seeded change in its scratch worktree and store it under
/verif/seeded/<property>-<n>/ (patch.diff, demo.py, notes.md, meta.json).

usage: seed_import.py <property id> <worktree> <out dir of the sub-agent> [extra checks...]
Never touches /repo: checks run with VERIF_REPO=<worktree>."""
import json
import os
import shutil
import subprocess
import sys

VERIF = os.path.dirname(os.path.dirname(os.path.abspath(__file__)))


def sh(cmd, **kw):
    return subprocess.run(cmd, shell=True, capture_output=True, text=True, **kw)


def main():
    pid, wt, out = sys.argv[1:4]
    round3 = pid == "--round3"
    round4 = pid == "--round4"
    round5 = pid == "--round5"
    round6 = pid == "--round6"
    round7 = pid == "--round7"
    round8 = pid == "--round8"
    round9 = pid == "--round9"
    round10 = pid == "--round10"
    round2 = pid in ("--round2", "--round3", "--round4", "--round5", "--round6", "--round7", "--round8", "--round9", "--round10")
    extra = sys.argv[4:]
    for n in range(1, 10):
        src = os.path.join(out, f"change{n}")
        if not os.path.exists(os.path.join(src, "patch.diff")):
            continue
        if round2:
            import re

            first = open(os.path.join(src, "notes.md")).read().splitlines()[0] if os.path.exists(os.path.join(src, "notes.md")) else ""
            m = re.search(r"C\d\d", first)
            if not m:
                print(src, "no property in notes.md")
                continue
            pid = m.group(0)
        checks = [pid] + extra
        sh(f"git -C {wt} checkout -q -- .")
        demo = os.path.join(src, "demo.py")
        d0 = sh(f"cd {wt} && PYTHONPATH={wt}/src /venv/bin/python {demo}").returncode
        ap = sh(f"git -C {wt} apply {src}/patch.diff")
        if ap.returncode != 0:
            print(pid, n, "patch does not apply", ap.stderr)
            continue
        d1 = sh(f"cd {wt} && PYTHONPATH={wt}/src /venv/bin/python {demo}").returncode
        tests = sh(f"cd {wt} && PYTHONPATH={wt}/src /venv/bin/python -m pytest -q -p no:cacheprovider -n 4 --deselect tests/ipc/test_ipc.py::IPCTester::test_bell_prep 2>&1 | tail -1").stdout.strip()
        caught = {}
        for c in checks:
            r = sh(f"cd {VERIF} && VERIF_REPO={wt} VERIF_NO_SHRINK=1 /venv/bin/python -m vlib.run {c} --tier quick")
            sigs = sorted({l.split("signature:", 1)[1].strip() for l in r.stdout.splitlines() if "signature:" in l})
            caught[c] = {"exit": r.returncode, "signatures": sigs}
        sh(f"git -C {wt} checkout -q -- .")
        sh(f"rm -rf {VERIF}/replay {VERIF}/scratch")
        tag = f"{pid}-{n}"
        if round2:
            k = 3
            while os.path.exists(os.path.join(VERIF, "seeded", f"{pid}-{k}")) and not _same_patch(os.path.join(VERIF, "seeded", f"{pid}-{k}", "patch.diff"), os.path.join(src, "patch.diff")):
                k += 1
            tag = f"{pid}-{k}"
        dst = os.path.join(VERIF, "seeded", tag)
        os.makedirs(dst, exist_ok=True)
        for f in ("patch.diff", "demo.py", "notes.md"):
            if os.path.exists(os.path.join(src, f)):
                shutil.copy(os.path.join(src, f), os.path.join(dst, f))
        notes = open(os.path.join(src, "notes.md")).read() if os.path.exists(os.path.join(src, "notes.md")) else ""
        meta = {
            "property": pid,
            "origin": ("tenth round: as the eighth and ninth, for the remaining four properties (C01 C02 C14 C16), three changes each" if round10 else "ninth round: as the eighth, for eight further properties (C03 C05 C08 C09 C11 C13 C17 C20), three changes each" if round9 else "eighth round: independent sub-agent given ONE property (one of the eight with the fewest stored changes), its own scratch worktree and the trigger descriptions of the earlier changes for that property; asked for subtle changes at other code sites and trigger conditions" if round8 else "seventh round: independent sub-agent assigned ONE FEATURE of the library to follow end to end, given all 20 property texts, its own scratch worktree and one-line summaries of the earlier changes" if round7 else "sixth round: independent sub-agent assigned a THEME (second set of themes), given all 20 property texts, its own scratch worktree and one-line summaries of the earlier changes" if round6 else "fifth round: independent sub-agent assigned a THEME (kind of fault), given all 20 property texts, its own scratch worktree and one-line summaries of the 151 earlier changes" if round5 else "fourth round: independent sub-agent assigned a set of FILES (those with few earlier changes), given all 20 property texts, its own scratch worktree and the summaries of earlier changes in those files" if round4 else "third round: independent sub-agent given the property texts, its own scratch worktree and the one-line summaries of the 75 earlier changes to avoid; asked for faults in indirectly used helpers, rarely taken branches or two cooperating sites" if round3 else "second round: independent sub-agent asked for subtle changes (rare values / shapes / call orders / cooperating sites), given only the property texts and its own scratch worktree" if round2 else "independent sub-agent given only the property text and its own scratch worktree of /repo (HEAD with all fix: commits)"),
            "needs_to_manifest": _needs(notes),
            "confirmed": {
                "demo_exit_without_patch": d0,
                "demo_exit_with_patch": d1,
                "repository_tests_with_patch": tests,
                "how": f"git -C <scratch worktree> apply patch.diff; PYTHONPATH=<worktree>/src /venv/bin/python demo.py; pytest -n 4 (IPC timeout test deselected); checks run with VERIF_REPO=<worktree>, quick tier, VERIF_SEED=1",
            },
            "checks": caught,
            "caught_by": [c for c, v in caught.items() if v["exit"] == 1],
        }
        with open(os.path.join(dst, "meta.json"), "w") as f:
            json.dump(meta, f, indent=1)
        print(tag, "demo", d0, "->", d1, "| tests:", tests, "| caught by:", meta["caught_by"], {c: v["signatures"][:2] for c, v in caught.items()})


def _same_patch(a, b):
    try:
        return open(a).read() == open(b).read()
    except OSError:
        return False


def _needs(notes):
    for line in notes.splitlines():
        l = line.lower()
        if "needed to manifest" in l or "needs" in l or "manifest" in l:
            return line.strip("-* ").strip()
    return notes.strip().splitlines()[0] if notes.strip() else ""


if __name__ == "__main__":
    main()
