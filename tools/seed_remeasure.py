#!/usr/bin/env python3
"""Development helper: re-measure stored seeded changes after a check was strengthened.

usage: tools/seed_remeasure.py <json file: {seeded id: {"checks": [...], "first_run": "..."}}>

For every listed change the named checks are run (quick tier, VERIF_SEED=1) against a scratch
worktree of /repo's HEAD with the patch applied (never /repo itself; same machinery as
tools/reverify_seeded.py) and meta.json gets the new `checks`, `caught_by` and `first_run`."""
import json
import os
import sys

sys.path.insert(0, os.path.dirname(os.path.abspath(__file__)))
import reverify_seeded as rv  # noqa: E402


def main():
    todo = json.load(open(sys.argv[1]))
    rv.setup(9)
    try:
        for sid, spec in todo.items():
            mp = os.path.join(rv.VERIF, "seeded", sid, "meta.json")
            meta = json.load(open(mp))
            if spec.get("checks"):
                meta["caught_by"] = spec["checks"]
                json.dump(meta, open(mp, "w"), indent=1)
                _sid, verdict, res = rv.trial((9, sid))
                meta["checks"] = {c: {"exit": rc, "signatures": sigs} for c, rc, sigs in res}
                meta["caught_by"] = [c for c, rc, _s in res if rc == 1]
                print(sid, verdict, res, flush=True)
            meta["first_run"] = spec["first_run"]
            json.dump(meta, open(mp, "w"), indent=1)
    finally:
        rv.teardown(9)


if __name__ == "__main__":
    main()
