#!/usr/bin/env python3
"""Regenerate /verif/MANIFEST.json from the per-check metadata below (development helper)."""
import json
import os

HERE = os.path.dirname(os.path.dirname(os.path.abspath(__file__)))

TRUST = "Trusted base: the harness's own model/renderer/extractor (vlib/model.py, render.py, extract.py), Hypothesis 6.168, CPython; "

CHECKS = {
    "C01": dict(
        text="Generated-input search: thousands (quick) to >100k (thorough) grammar-directed programs are round-tripped through generate/parse under three construction routes (parsed anonymous, parsed with injected natives, built from the S-expression) and compared by ==, independently extracted meaning (numbers by type and repr), declarations and byte-identical regeneration. Holds on everything generated; no absence claim.",
        note=TRUST + "programs the parser rejects are outside this property's domain (acceptance is C02); finite numbers; branch/case excluded.",
        tech="property-based testing (Hypothesis): round-trip + fixpoint oracle over grammar-generated programs",
        ref="DESIGN.md section 3 / C01",
    ),
    "C02": dict(
        text="Generated-input search with an independent reference: legal programs rendered under drawn layouts must parse to the independently rendered S-expression; token-level near misses (single-token edits, exchanges of whole statements, a balanced bracket pair put around a run of statements; identifiers with a keyword as dotted component) are decided by an independent Earley recognizer (accept/reject, first offending token) and an independent recursive-descent tree builder. Every valid program is also handed, under the drawn layout, to parse_jaqal_string and the circuit's meaning compared with the reference.  Exact at token level; below token level see C16.",
        note=TRUST + "vlib/refgrammar.py (grammar transcribed from the property and the Jaqal spec; Earley vs recursive descent cross-checked by the self-test); the two rule-level rejections (register size <= 0, import..as) only need JaqalParseError.",
        tech="property-based testing: differential against an independent Earley recognizer + metamorphic layout invariance",
        ref="DESIGN.md section 3 / C02",
    ),
    "C04": dict(
        text="Generated-input search against a reference semantics: for programs with macro call graphs in every block context, expand_macros (both preserve modes) must leave no macro call, reproduce the reference call-by-substitution meaning (subcircuits, counts, kinds) and carry header data over; the expansion is read a second time in an environment that gives every let another value (a let handed to a macro must still be a reference); prebuilt wrong-arity calls at drawn positions must raise JaqalError; macro calls built inside builder blocks that are evaluated on their own (keyed by placeholder parameter names) must expand like the same program read from its text.",
        note=TRUST + "programs are valid by construction; cases where parser and reference already disagree are C07's and skipped here (counted).",
        tech="property-based testing: reference-model oracle (call-by-substitution meaning) + structural invariants",
        ref="DESIGN.md section 3 / C04",
    ),
    "C05": dict(
        text="Generated-input search: lets in every grammar position with drawn override dictionaries; fill_in_let must leave no Constant anywhere, and the result's meaning/declarations under the EMPTY environment must equal the input circuit's under the overriding environment (independent extractor, cross-checked with the text-level reference), macro parameters/macro set/natives/usepulses preserved, parser flag expand_let equal to the explicit pass.",
        note=TRUST + "overrides that make the program invalid are C14's; cases where the text model and the parsed circuit disagree under the override (builder fixes a defaulted slice stop of an alias-of-alias at parse time) are counted as outside the stated property.",
        tech="property-based testing: reference-model oracle under environments + differential (parser flag vs explicit pass)",
        ref="DESIGN.md section 3 / C05",
    ),
    "C07": dict(
        text="Generated-input search targeted at the interaction the property names: the same gate statement text placed in the main body and in macros whose parameters capture its names (direct / array / index), permuted definition order; the parsed circuit's meaning per scope must equal the reference meaning, also after expand_macros, fill_in_let, fill_in_let under an override of every let that a macro parameter shadows, and fill_in_map, and must not change when the other scopes are deleted.",
        note=TRUST + "anonymous gates; macros call earlier macros only.",
        tech="property-based testing: reference-model oracle per scope + metamorphic (delete unrelated scopes)",
        ref="DESIGN.md section 3 / C07",
    ),
    "C10": dict(
        text="Generated-input search over pass HISTORIES: a drawn sequence (1-8 steps, repetitions) of expand_subcircuits / fill_in_let(ov) / expand_macros / fill_in_map is applied to the parsed circuit; after every step the independently extracted meaning must equal the reference meaning (so all orders agree), re-applying the pass must give an == circuit with identical text, generate->parse must succeed with the same meaning, usepulses must survive (alias fill-in is also tried before macro expansion: it may refuse, but an answer must be right); every parser flag combination must equal the explicit composition, through parse_jaqal_string and through parse_jaqal_file. Template programs whose macros index the fundamental register by a parameter (or index a register parameter) must pass alias fill-in under four routes with unchanged meaning.",
        note=TRUST + "'applicable' for fill_in_map follows its docstring/use in parse_jaqal_string (after let substitution when overrides are given, after macro expansion when macros exist): otherwise the step is skipped; histories are drawn as lists (equivalent to a rule-based state machine whose rules are the four passes; replayable as JSON).",
        tech="property-based testing over operation sequences (model-based: reference meaning as the state invariant) + idempotence/round-trip metamorphic relations",
        ref="DESIGN.md section 3 / C10",
    ),
    "C20": dict(
        text="Generated-input search over PAIRS: every program paired with a relayout/respelling (must be ==) and with single-site model-level mutants (gate name, argument, arity, qubit index, loop/subcircuit count, block kind, alias bound, let value, register size, usepulses module, parameter use): unequal whenever the reference semantics separates them, symmetric always, == own re-parse, and == implies equal extracted meaning and declarations.",
        note=TRUST + "mutants the reference cannot separate (or that are invalid / rejected) are discarded and counted; anonymous gates.",
        tech="property-based testing: mutation-based discrimination oracle + equivalence laws",
        ref="DESIGN.md section 3 / C20",
    ),
    "C03": dict(
        text="Generated-input search against an independent simulator: executable programs over a per-case random native gate set (asymmetric multi-qubit unitaries, parametrised gates, classical parameter between qubit parameters, idle / no-unitary gates) with aliases, lets, overrides, macros, loops and parallel blocks are run through run_jaqal_circuit and every visited subcircuit's state vector and probabilities are compared (1e-9) with an einsum tensor simulation of the reference-expanded unrolled program; reversing parallel branch order must change nothing.",
        note=TRUST + "vlib/refsim.py (cross-checked against a definitional dense construction by the self-test), vlib/refexec.py; gate matrices are inputs; n <= 7 qubits.",
        tech="property-based testing: differential against an independent reference simulator + metamorphic parallel-order relation",
        ref="DESIGN.md section 3 / C03",
    ),
    "C08": dict(
        text="Generated-input search against a reference visit model: for accepted bracket placements (loops 0-3, macros, blocks) and for executable programs (let-valued / overridden loop counts), run_jaqal_circuit must finish within a deterministic step budget and produce exactly the reference's unrolled visit sequence (count, order, index, attribution, possible outcome, per-subcircuit lists, frequencies); parse_jaqal_output_list on drawn outputs must attribute identically.",
        note=TRUST + "vlib/refexec.py; termination is decided by a sys.monitoring LINE-event budget (2000 x unrolled size + 10^6), not by wall clock; runs whose unrolled bracket structure differs from the flat one (prepare/measure in a zero-count loop pairing across the loop) are outside the stated property and counted.",
        tech="property-based testing: model-based oracle (unrolled visit sequence) + deterministic step-budget termination check",
        ref="DESIGN.md section 3 / C08",
    ),
    "C12": dict(
        text="Generated-input search over unfiltered prepare/measure/subcircuit/gate placements (nested blocks, single-branch parallel blocks, loops 0-3, macros): the reference applies the property's three flat-order rules; accepted programs must run and yield the reference subcircuit count and states, rejected ones must raise JaqalError naming the rule; hangs and other exceptions are violations; the same verdict is demanded when the program is built through circuitbuilder.build with numpy integer loop counts, and when 2-4 programs run in order through ONE backend object (each judged alone by the reference).",
        note=TRUST + "vlib/refexec.py; 2-qubit register with X / idle gates; where a prepare sits in a zero-count loop the state (not the count) is left unjudged because the flat and unrolled readings of 'last prepare' differ.",
        tech="property-based testing: reference acceptance predicate (both directions: accept<=>run, reject<=>JaqalError)",
        ref="DESIGN.md section 3 / C12",
    ),
    "C06": dict(
        text="Generated-input search + bounded exhaustive enumeration: for alias chains of depth 1-5 (strided, let-valued and defaulted bounds) every valid reference is resolved by the reference arithmetic and compared with resolve_qubit, fill_in_map (after macro expansion and let substitution, meaning unchanged, no reference left on an alias at any depth incl. subcircuit blocks), get_used_qubit_indices (single statements, unexpanded macro calls one by one and several together), the pyGSTi label and the emulator (probability 1 on 1<<idx; through run_jaqal_circuit and through the backend's job interface); pyGSTi labels (name, qubits, classical arguments) of every gate the emulator serialises for executable programs are compared with the reference's execution; all two-level slice chains over registers up to 4 (quick) / 7 (thorough) qubits are enumerated completely for the three static consumers.",
        note=TRUST + "emulator consumer sampled (8 references per case, n <= 8); pyGSTi consumer only if its module imports.",
        tech="property-based testing: reference-model oracle with N-way differential between consumers; exhaustive enumeration of a bounded sub-domain",
        ref="DESIGN.md section 3 / C06",
    ),
    "C09": dict(
        text="Generated-input search: structurally, expand_subcircuits (default / caller-named / caller-object definitions, anonymous or native gates) must leave no subcircuit block (macro bodies included), match the reference meaning of the spelled-out program, use the right definition objects and keep header data; behaviourally, a program and its spelled-out twin (prepare_all; B; measure_all) must run and parse hardware outputs identically (counts, probabilities 1e-12, attribution, frequencies), also when explicit prepare/measure gates are injected into subcircuit bodies (verdicts must agree); a second expansion of the same object with other bounding gates must not remember the first.",
        note=TRUST + "behavioural part restricted to programs the reference accepts; sampled values are not compared, only attribution and distributions.",
        tech="property-based testing: reference-model oracle + differential between two spellings of the same program",
        ref="DESIGN.md section 3 / C09",
    ),
    "C13": dict(
        text="Generated-input search: get_used_qubit_indices of circuits and of busy-free statements must equal the reference used set exactly (aliases of aliases, strided slices, let indices, macro parameters forwarded through chains of macros, whole-register arguments, loops, idle gates); programs with an overlap injected into a parallel block through a random name of the shared qubit (or an idle gate, which must not count) must be rejected by the emulator exactly when the reference says the branches intersect, and accepted programs must be invariant under branch permutation.",
        note=TRUST + "an unexpanded subcircuit block contributes the gates written in it (its implicit prepare/measure exist only after expand_subcircuits).",
        tech="property-based testing: reference-model oracle (exact set, both inclusions) + fault injection + metamorphic permutation",
        ref="DESIGN.md section 3 / C13",
    ),
    "C15": dict(
        text="Generated-input search + bounded exhaustive enumeration: every view of every subcircuit result (simulated/relative/probability, by_int/by_str) and every Readout is checked against the little-endian convention, normalisation and counts, for emulator runs, for the job interface (job.subcircuits before anything ran, after execute() and after a second execute(); string-keyed views read before or after the integer-indexed ones) and for output lists given as ints and as strings; ALL outcomes for n <= 6 (quick) / 9 (thorough) qubits are fed through the output parser and (n <= 6) through emulated basis-state preparation; runs of 127..70003 visits with one dominant outcome check that no counter wraps.",
        note=TRUST + "the convention is the one documented in core/result.py.",
        tech="property-based testing: invariant/validity predicates over result views + exhaustive outcome enumeration",
        ref="DESIGN.md section 3 / C15",
    ),
    "C11": dict(
        text="Generated-input search over call HISTORIES on one shared circuit object: after every one of 1-7 drawn library calls (five transformations, used-qubit analysis, text generation, emulation, output parsing) a deep structural fingerprint of the shared input (everything reachable, element identities, repr) must be unchanged and the call's outcome must equal the outcome on a freshly parsed copy; every call is also applied to the result of the latest transformation (chained inputs), which must stay unchanged too.",
        note=TRUST + "the fingerprint walks __dict__/list/dict/tuple/slice/ndarray; histories are drawn as lists (a rule-based state machine whose rules are the nine calls, replayable as JSON).",
        tech="property-based testing over operation sequences: history invariant (deep snapshot) + differential against a fresh copy",
        ref="DESIGN.md section 3 / C11",
    ),
    "C14": dict(
        text="Generated-input search with single-fault injection: every boundary/out-of-range index (literal, let, override, macro argument), out-of-source alias slice, non-register indexing/aliasing, bad register size, duplicate definition, unknown gate / wrong arity / wrong kind (also after macro substitution) is injected into a valid program and the documented pipeline is driven stage by stage: rejection with JaqalError no later than the stage where the value becomes known, never a result, never another exception; the fault-free twin must pass and mean what the reference says; gate-definition precedence (injected > later import > earlier import, incl. repeated imports and a gate with the same signature but another unitary in both modules) is enumerated exhaustively with on-disk pulse modules; definition faults also by removal (a called macro deleted / its parameter list changed); call faults (arity, kind, unknown gate) inside CircuitBuilder loop / macro bodies that the builder evaluates on their own, in circuits with and without lets, must be refused by run_jaqal_circuit at the latest.",
        note=TRUST + "vlib/pulses/moda.py, modb.py (on-disk pulse modules); the stage at which a value 'becomes known' is computed by the reference from what the failing check depends on (literal / let / macro argument).",
        tech="property-based testing: fault injection with a reference validity predicate, staged-pipeline oracle, fault-free twins",
        ref="DESIGN.md section 3 / C14",
    ),
    "C17": dict(
        text="Generated-input search: programs of the fragment common to all front ends, with user names drawn from the auto-namer's own forms, are built through Q-syntax, text, S-expression and CircuitBuilder method calls; the four circuits must be pairwise == with identical generated text (Q-syntax up to the reference's wrap rule), auto-generated names must be fresh against user names of every kind.  Second part: general programs (aliases, macros, pulse imports) are built from text, S-expression and every CircuitBuilder/BlockBuilder method with randomly chosen argument forms (names or core objects, evaluated at once or lazily); the three circuits must be ==, generate the same text by value, and the builder circuit must have the reference's meaning and declarations.",
        note=TRUST + "Q-syntax cannot express aliases, macros or parallel loop bodies: outside the fragment.",
        tech="property-based testing: N-way differential between front ends + reference wrap rule + freshness predicate",
        ref="DESIGN.md section 3 / C17",
    ),
    "C18": dict(
        text="Bounded exhaustive enumeration + generated-input search: every signature of length <= 2 (quick) / <= 3 (thorough) over the five parameter kinds x every tuple of 17 value classes (incl. None and arbitrary objects), plus wrong arities, is called positionally and by keyword - on a fresh definition and on one that has already accepted a fitting call with arguments of the same Python types - and compared with a reference `fits` predicate; idle twins (also of busy gates other than prepare/measure) are checked structurally and by inserting idle gates into executable programs (state unchanged); stretched sets (parents optionally used before derivation; active gates named like derived ones) are checked for signature, call validation of the stretch factor and exact equality of the ideal unitary with the parent's, with update=False (caller's dictionary untouched) and update=True (caller's dictionary returned, every stretched gate under its own name).",
        note=TRUST + "non-finite floats offered to FLOAT/NONE parameters are not judged.",
        tech="exhaustive enumeration of a finite call table + property-based metamorphic checks (idle insertion, stretch factor invariance)",
        ref="DESIGN.md section 3 / C18",
    ),
    "C19": dict(
        text="Generated-input search against a reference schedule: programs with alternating seq/par nesting to depth 6, uneven branches, empty blocks, subcircuits and loops, every gate tagged uniquely; the (tag, time step) multiset, loop atoms, subcircuit containers (start, count, duration), flatness of the output and header data must be preserved; one case in four is built through circuitbuilder.build instead of parsed; a loop under a parallel block - in built cases also as a branch of the parallel block itself - must raise JaqalError.",
        note=TRUST + "vlib/refexec.schedule (unit-time model as stated in the property); loops are atoms of one step on both sides.",
        tech="property-based testing: reference-model oracle (schedule as multiset) + structural validity predicate",
        ref="DESIGN.md section 3 / C19",
    ),
    "C16": dict(
        text="Fuzzing with an explicit oracle: junk strings, token soups, character- and token-granular prefixes and character-level mutations of valid programs are handed to nine entry points (parse, header parse, parse with an injected gate-set object shared by all calls, parse with relative pulse import under two import directories, run, parse_jaqal_file / run_jaqal_file next to copies of the pulse modules; pulse modules in four on-disk layouts); only a result, JaqalError, or ImportError-for-a-missing-module may come out, within a deterministic step budget, parse errors must carry an in-text position, ill-formed token texts (independent Earley recognizer) and texts with illegal characters must raise JaqalParseError; histories of 2-8 calls in one process must reproduce, text by text, the outcome of a pristine freshly spawned interpreter.",
        note=TRUST + "vlib/pristine.py (fresh `python -c` per distinct text, asserts importlib.util not yet imported), vlib/refgrammar.py; raw character strings get the weak oracle only; run-entry texts containing large numbers are excluded from the termination budget (honest cost unbounded).",
        tech="grammar-aware fuzzing (PRNG-expanded seeds under Hypothesis) with exception-contract oracle, step-budget termination oracle and differential against a pristine interpreter for call histories",
        ref="DESIGN.md section 3 / C16",
    ),
}

ORDER = [f"C{i:02d}" for i in range(1, 21)]


def main():
    checks = []
    for pid in ORDER:
        if pid not in CHECKS or not os.path.exists(os.path.join(HERE, "vlib", "checks", pid.lower() + ".py")):
            continue
        c = CHECKS[pid]
        checks.append(
            {
                "property_id": pid,
                "quick_cmd": f"/venv/bin/python -m vlib.run {pid} --tier quick",
                "thorough_cmd": f"/venv/bin/python -m vlib.run {pid} --tier thorough",
                "evidence_file": f"evidence/{pid}.json",
                "replay_cmd_template": f"/venv/bin/python -m vlib.run {pid} --replay {{path}}",
                "engine": "vlib",
                "level_claimed": {"category": "exploration", "text": c["text"], "design_ref": c["ref"]},
                "level_note": c["note"],
                "technique": c["tech"],
            }
        )
    claimed = [c["property_id"] for c in checks]
    m = {
        "version": 1,
        "setup_cmd": "sh ./setup.sh",
        "hooks": {
            "guard": "HAIKUSW_JAQALPAQ_VERIF",
            "enable": "no hook is needed: every observation point is a public return value, attribute or exception; checks import jaqalpaq from /repo/src (the current working tree, or $VERIF_REPO/src)",
            "baseline_off_cmd": "cd /repo && /venv/bin/python -m pytest -ra -q -p no:cacheprovider --timeout=900 --continue-on-collection-errors",
            "source_commits": [],
            "add_only": True,
        },
        "engines": [
            {
                "name": "vlib",
                "path": "vlib/",
                "serves_properties": claimed,
                "kind_free_text": "Hypothesis-driven property-based testing framework: independent program model + reference semantics (vlib/model.py), independent grammar (vlib/refgrammar.py), grammar-directed generators (vlib/gen.py), read-only circuit meaning extractor (vlib/extract.py), sharded runner with failure bucketing, JSON shrinker, replay and regression tiers, known findings (vlib/harness.py)",
            }
        ],
        "checks": checks,
        "not_applicable": [
            {
                "property_id": pid,
                "reason": "check not yet registered in this round (design in DESIGN.md section 3); will be claimed once its check is built and quiet on the unchanged tree",
            }
            for pid in ORDER
            if pid not in claimed
        ],
        "notes": "Checks run as `/venv/bin/python -m vlib.run <id>`; VERIF_SEED and VERIF_TIER are honoured; exit 0 = held, exit 1 = VIOLATION line(s), exit 2 = harness error / inconclusive (never a violation). Fixed defects are listed in known_findings.json under 'fixed' and their shrunk witnesses are replayed from regress/<id>/ by every run.",
    }
    with open(os.path.join(HERE, "MANIFEST.json"), "w") as f:
        json.dump(m, f, indent=1)
    print("claimed:", claimed)


if __name__ == "__main__":
    main()
