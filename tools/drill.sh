#!/bin/sh
# Development helper: false-alarm drill - every check at several seeds (and optionally a tier).
# usage: tools/drill.sh "2 3 4 5" [quick|thorough] [checks...]
cd "$(dirname "$0")/.." || exit 2
SEEDS="${1:-2 3 4 5}"; TIER="${2:-quick}"; shift 2 2>/dev/null
CHECKS="${*:-C01 C02 C03 C04 C05 C06 C07 C08 C09 C10 C11 C12 C13 C14 C15 C16 C17 C18 C19 C20}"
for s in $SEEDS; do
  for c in $CHECKS; do
    out=$(VERIF_SEED=$s /venv/bin/python -m vlib.run "$c" --tier "$TIER" 2>&1); rc=$?
    echo "seed=$s rc=$rc $(echo "$out" | tail -1)"
    if [ $rc -ne 0 ]; then echo "$out" | grep -A12 "^VIOLATION\|HARNESS" | head -60; fi
  done
done
