#!/usr/bin/env python3
"""Development helper: line coverage of /repo/src/jaqalpaq reached by the checks' generated cases
(in-process, a few hundred cases per part).  Shows blind spots of the generators."""
import importlib
import os
import sys

sys.path.insert(0, os.path.dirname(os.path.dirname(os.path.abspath(__file__))))
import coverage

cov = coverage.Coverage(source=["/repo/src/jaqalpaq"], data_file=None)
cov.start()
from vlib import setup_paths

setup_paths()
from vlib import harness
import hypothesis
from hypothesis import given, settings, Phase, HealthCheck

N = int(sys.argv[1]) if len(sys.argv) > 1 else 300
for i in range(1, 21):
    mod = importlib.import_module(f"vlib.checks.c{i:02d}")
    for part in mod.parts():
        col = harness.Collector(part, [])
        if part.strategy is None:
            for k, case in enumerate(part.exhaustive("quick")):
                if k >= N:
                    break
                col.run_case(case)
            continue

        @hypothesis.seed(1)
        @settings(max_examples=N, database=None, deadline=None, phases=[Phase.generate], suppress_health_check=list(HealthCheck))
        @given(part.strategy)
        def t(case):
            col.run_case(case)

        t()
        print(mod.PROPERTY, part.name, col.evals, "failures:", list(col.failures)[:3], file=sys.stderr)
cov.stop()
cov.report(show_missing=True, skip_covered=False, file=sys.stdout)
