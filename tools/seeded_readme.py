#!/usr/bin/env python3
"""Regenerate /verif/seeded/README.md from seeded/*/meta.json."""
import json
import os

HERE = os.path.dirname(os.path.dirname(os.path.abspath(__file__)))
d = os.path.join(HERE, "seeded")
rows = []
for name in sorted(os.listdir(d)):
    mp = os.path.join(d, name, "meta.json")
    if not os.path.exists(mp):
        continue
    m = json.load(open(mp))
    sigs = []
    for c, v in m["checks"].items():
        if v["exit"] == 1:
            sigs.append(f"{c}: " + ", ".join(v["signatures"][:3]))
    first = m.get("first_run", "")
    if m.get("later"):
        first = (first + "; LATER: " if first else "LATER: ") + m["later"]
    if m.get("status_on_head"):
        first = (first + "; STATUS: " if first else "STATUS: ") + m["status_on_head"]
    rows.append((name, m["property"], first, m["needs_to_manifest"][:260].replace("|", "/"), "; ".join(sigs) or "NOT CAUGHT (quick tier)"))
with open(os.path.join(d, "README.md"), "w") as f:
    f.write("# Seeded changes (realistic breakage used to test the checks)\n\n")
    f.write("Each directory holds `patch.diff` (against /repo HEAD at the time, i.e. with all `fix:` commits), the author's `demo.py` "
            "(fails with the change, passes without), `notes.md` and `meta.json` (what was confirmed and which checks report it). "
            "None of these changes is ever committed to /repo; they are applied in a scratch worktree and the checks are pointed at it with `VERIF_REPO`.\n\n")
    f.write("| id | property | needs to manifest | caught by (quick tier, VERIF_SEED=1): failure signatures | history |\n|---|---|---|---|---|\n")
    for name, prop, first, needs, sigs in rows:
        f.write(f"| {name} | {prop} | {needs} | {sigs} | {first or 'caught by the check as first built'} |\n")
    n_caught = sum(1 for r in rows if not r[4].startswith("NOT"))
    n_own = sum(1 for r in rows if r[4].startswith(r[1] + ":") or ("; " + r[1] + ":") in r[4])
    n_first = sum(1 for r in rows if not r[2])
    n_neutral = sum(1 for name in os.listdir(d) if os.path.exists(os.path.join(d, name, "meta.json")) and json.load(open(os.path.join(d, name, "meta.json"))).get("status_on_head"))
    f.write(f"\n{n_caught} of {len(rows)} changes are reported by the quick tier ({n_own} by the check of the property they were written against, the rest by the check of a neighbouring property named in the table); {n_first} were caught by the checks as first built, the others led to (or were measured after) the strengthening noted in the last column.  The patches were made against the HEAD of their day; `tools/reverify_seeded.py` re-runs them against the current HEAD: a patch that conflicts with a later `fix:` commit is not a trial any more, and {n_neutral} changes apply but no longer break their property there (STATUS in the last column).\n")
print(len(rows), "seeded changes")
