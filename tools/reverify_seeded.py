#!/usr/bin/env python3
"""Development helper: re-run, for every stored seeded change, the check(s) recorded as
catching it, against a scratch worktree of /repo's HEAD with the patch applied (never /repo
itself), from private copies of /verif so that parallel trials share neither replay/ nor
evidence/.  Prints one line per change; exit 1 if any change is no longer reported (MISSED).  A stored patch
that conflicts with later fix: commits is PATCH-DOES-NOT-APPLY; one that applies but whose own
demonstration passes on this HEAD is NO-LONGER-A-VIOLATION; neither is a miss.

usage: tools/reverify_seeded.py [workers=4] [seeded ids...]
"""
import json
import os
import shutil
import subprocess
import sys
from concurrent.futures import ThreadPoolExecutor

VERIF = os.path.dirname(os.path.dirname(os.path.abspath(__file__)))


def sh(cmd, **kw):
    return subprocess.run(cmd, shell=True, capture_output=True, text=True, **kw)


def setup(k):
    wt, vc = f"/tmp/rv_wt_{k}", f"/tmp/rv_verif_{k}"
    sh(f"git -C /repo worktree remove --force {wt}; rm -rf {wt} {vc}")
    r = sh(f"git -C /repo worktree add -f --detach {wt} HEAD")
    if r.returncode:
        raise SystemExit(r.stderr)
    os.makedirs(vc)
    for name in ("vlib", "regress", "known_findings.json", "properties.jsonl"):
        src = os.path.join(VERIF, name)
        if os.path.isdir(src):
            shutil.copytree(src, os.path.join(vc, name), ignore=shutil.ignore_patterns("__pycache__"))
        else:
            shutil.copy(src, vc)
    return wt, vc


def teardown(k):
    sh(f"git -C /repo worktree remove --force /tmp/rv_wt_{k}; rm -rf /tmp/rv_wt_{k} /tmp/rv_verif_{k}")


def trial(args):
    k, sid = args
    wt, vc = f"/tmp/rv_wt_{k}", f"/tmp/rv_verif_{k}"
    d = os.path.join(VERIF, "seeded", sid)
    meta = json.load(open(os.path.join(d, "meta.json")))
    checks = meta.get("caught_by") or [meta["property"]]
    sh(f"git -C {wt} reset -q --hard HEAD; git -C {wt} clean -fdq")
    ap = sh(f"git -C {wt} apply {d}/patch.diff")
    if ap.returncode:
        # the stored patch is against the HEAD of its day; /repo has moved on (fix: commits in the
        # same file): a clean three-way application is still a fair trial, a conflict is not
        ap = sh(f"git -C {wt} apply -3 {d}/patch.diff")
        if ap.returncode or sh(f"git -C {wt} diff --name-only --diff-filter=U").stdout.strip():
            sh(f"git -C {wt} reset -q --hard HEAD; git -C {wt} clean -fdq")
            return sid, "PATCH-DOES-NOT-APPLY", []
        sh(f"git -C {wt} reset -q")  # unstage, keep the changed files
    res = []
    caught = False
    for c in checks:
        r = sh(f"cd {vc} && VERIF_REPO={wt} VERIF_NO_SHRINK=1 /venv/bin/python -m vlib.run {c} --tier quick")
        sigs = sorted({l.split("signature:", 1)[1].strip() for l in r.stdout.splitlines() if "signature:" in l})
        res.append((c, r.returncode, sigs[:4]))
        if r.returncode == 1:
            caught = True
            break
    demo_rc = None
    if not caught and os.path.exists(os.path.join(d, "demo.py")):
        # /repo has moved on since the change was stored: does its author's demonstration still
        # fail with the patch?  If not, the change no longer breaks the property on this HEAD
        # (a later fix: commit closed the hole it used) and there is nothing to catch.
        demo_rc = sh(f"cd {wt} && PYTHONPATH={wt}/src /venv/bin/python {d}/demo.py").returncode
    sh(f"git -C {wt} reset -q --hard HEAD; git -C {wt} clean -fdq")
    if not caught and demo_rc == 0:
        return sid, "NO-LONGER-A-VIOLATION", res
    if not caught and any(rc == 2 for _c, rc, _s in res):
        return sid, "HARNESS-ERROR", res
    return sid, "caught" if caught else "MISSED", res


def main():
    workers = int(sys.argv[1]) if len(sys.argv) > 1 else 4
    ids = sys.argv[2:] or sorted(x for x in os.listdir(os.path.join(VERIF, "seeded")) if os.path.isdir(os.path.join(VERIF, "seeded", x)))
    for k in range(workers):
        setup(k)
    bad = 0
    try:
        lanes = [ids[k::workers] for k in range(workers)]

        def lane(k):
            return [trial((k, sid)) for sid in lanes[k]]

        with ThreadPoolExecutor(max_workers=workers) as ex:
            for out in ex.map(lane, range(workers)):
                for sid, verdict, res in out:
                    print(sid, verdict, res, flush=True)
                    bad += verdict in ("MISSED", "HARNESS-ERROR")
    finally:
        for k in range(workers):
            teardown(k)
    return 1 if bad else 0


if __name__ == "__main__":
    sys.exit(main())
