#!/bin/sh
# Development helper (not a registered check): run the repository's pinned suite quickly.
# The one baseline always-fail test (tests/ipc test_bell_prep, waits for a 900 s timeout) is deselected.
cd /repo && exec /venv/bin/python -m pytest -q -p no:cacheprovider --timeout=900 --continue-on-collection-errors -n 8 \
  --deselect tests/ipc/test_ipc.py::IPCTester::test_bell_prep "$@"
