"""C04: expand_macros binds a call's arguments by the parameter NAMES stored in
the call statement, not by position against the macro's parameters.

A loop added with the documented default of BlockBuilder.loop (evaluated at
once) is built before the circuit knows its macros, so a macro call inside it is
keyed p0, p1, ... (anonymous gate definition).  expand_macros then substitutes
the wrong arguments (silently swapped qubits) or leaves the macro's parameters
unsubstituted in the "expanded" circuit.
"""
import sys
from jaqalpaq.core import CircuitBuilder
from jaqalpaq.core import SequentialBlockBuilder
from jaqalpaq.core.algorithm import expand_macros, fill_in_let
from jaqalpaq.generator import generate_jaqal_program
from jaqalpaq.parser import parse_jaqal_string


def flat_gates(block, out):
    for s in block.statements:
        if hasattr(s, "gate_def"):
            out.append((s.name, tuple(getattr(v, "name", v) for v in s.parameters.values())))
        else:
            inner = s.statements
            flat_gates(inner if hasattr(inner, "statements") else s, out)
    return out


def build(macro_params):
    cb = CircuitBuilder()
    q = cb.register("q", 3)
    body = SequentialBlockBuilder()
    body.gate("CX", macro_params[0], macro_params[1])  # CX <first param> <second param>
    cb.macro("m", macro_params, body)
    loop_body = SequentialBlockBuilder()
    loop_body.gate("m", q[0], q[1])  # first argument q[0], second q[1]
    cb.loop(2, loop_body)  # default: evaluated at once
    return cb.build()


bad = 0
for params in (["p1", "p0"], ["ctl", "tgt"]):
    circuit = build(params)
    text = generate_jaqal_program(circuit)
    print("---- program (as Jaqal text):")
    print(text)
    got = flat_gates(expand_macros(circuit).body, [])
    # the same program through the text front end, and through another pass first
    want = flat_gates(expand_macros(parse_jaqal_string(text, autoload_pulses=False)).body, [])
    also = flat_gates(expand_macros(fill_in_let(circuit)).body, [])
    print("expand_macros(circuit)               ->", got)
    print("expand_macros(parse(text of circuit)) ->", want)
    print("expand_macros(fill_in_let(circuit))   ->", also)
    if got != want:
        bad += 1
        print("VIOLATION: expansion is not the body with the call's arguments substituted")

sys.exit(1 if bad else 0)
