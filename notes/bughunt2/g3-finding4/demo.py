"""C03: a macro whose body slices its register parameter (documented for
jaqalpaq.core.Parameter: "it can be indexed and sliced, if it represents a
Register parameter. Thus, it can be used within the body of a macro exactly as
if it were a register defined by a map or register statement") is not expanded:
expand_macros leaves the parameter inside the alias, and run_jaqal_circuit
refuses the program with "Unbound identifier p".

macro m p { X p[1:3][0] };  m q      ==  X q[1]     -> outcome "010"
"""
import sys
import numpy

from jaqalpaq.core import (
    BlockStatement,
    Circuit,
    GateDefinition,
    Macro,
    Parameter,
    ParamType,
    Register,
)
from jaqalpaq.core.gatedef import BusyGateDefinition
from jaqalpaq.emulator import run_jaqal_circuit
from jaqalpaq.error import JaqalError

gates = {
    "X": GateDefinition(
        "X",
        [Parameter("q", ParamType.QUBIT)],
        ideal_unitary=lambda: numpy.array([[0, 1], [1, 0]], dtype=complex),
    ),
    "prepare_all": BusyGateDefinition("prepare_all"),
    "measure_all": BusyGateDefinition("measure_all"),
}

p = Parameter("p", ParamType.REGISTER)
upper = p[1:3]  # a Register aliasing a slice of the parameter
macro = Macro("m", [p], BlockStatement(statements=[gates["X"](upper[0])]))

circuit = Circuit(native_gates=gates)
q = Register("q", 3)
circuit.registers["q"] = q
circuit.macros["m"] = macro
circuit.body.statements.extend(
    [gates["prepare_all"](), macro(q), gates["measure_all"]()]
)

try:
    result = run_jaqal_circuit(circuit)
except JaqalError as exc:
    print("VIOLATION: run_jaqal_circuit refused a valid program:", exc)
    sys.exit(1)

probs = result.subcircuits[0].simulated_probability_by_str
print(dict(probs))
if abs(probs["010"] - 1.0) > 1e-9:
    print("VIOLATION: wrong state, expected outcome '010'")
    sys.exit(1)
print("ok")
