"""C06: alias chains a few hundred maps deep: RecursionError escapes from fill_in_let / the emulator
(and from used-qubit analysis and fill_in_map for deeper chains); a chain of whole-register aliases is
refused with 'blocks are nested too deeply' although the program has no nested block."""
import sys
from jaqalpaq.core import GateDefinition, Parameter, ParamType
from jaqalpaq.core.gatedef import BusyGateDefinition
from jaqalpaq.core.algorithm import get_used_qubit_indices, fill_in_let
from jaqalpaq.core.algorithm.fill_in_map import fill_in_map
from jaqalpaq.parser import parse_jaqal_string
from jaqalpaq.emulator import run_jaqal_circuit
from jaqalpaq.error import JaqalError
import numpy as np

NATIVE = {
    "X": GateDefinition("X", [Parameter("q", ParamType.QUBIT)],
                        ideal_unitary=lambda: np.array([[0, 1], [1, 0]], dtype=complex)),
    "prepare_all": BusyGateDefinition("prepare_all"),
    "measure_all": BusyGateDefinition("measure_all"),
}


def program(depth, sliced):
    lines, prev = ["register q[2]"], "q"
    for i in range(depth):
        lines.append(f"map a{i} {prev}" + ("[0:2]" if sliced else ""))
        prev = f"a{i}"
    return "\n".join(lines + ["prepare_all", f"X {prev}[1]", "measure_all", ""])


bad = 0
for depth, sliced in [(100, True), (500, True), (1000, True), (500, False)]:
    label = f"chain of {depth} {'sliced' if sliced else 'whole-register'} aliases"
    try:
        circuit = parse_jaqal_string(program(depth, sliced), inject_pulses=NATIVE, autoload_pulses=False)
    except JaqalError as exc:
        print(label, ": parse refused the valid program:", exc)
        bad += 1
        continue
    gate = circuit.body.statements[1]
    for name, fn in [
        ("used qubits", lambda: dict(get_used_qubit_indices(gate))),
        ("fill_in_map", lambda: fill_in_map(circuit) and "ok"),
        ("fill_in_let", lambda: fill_in_let(circuit) and "ok"),
        ("emulator", lambda: [float(p) for p in run_jaqal_circuit(circuit).subcircuits[0].probability_by_int]),
    ]:
        try:
            print(label, ":", name, "->", fn())
        except JaqalError as exc:
            print(label, ":", name, "-> JaqalError", exc)
            bad += 1
        except RecursionError:
            print(label, ":", name, "-> RecursionError escaped")
            bad += 1
sys.exit(1 if bad else 0)
