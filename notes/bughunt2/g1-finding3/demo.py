"""C17: in Q-syntax a gate is written Q.<name>(args), but the names of Q's own
methods / properties win over gate names.  A program whose gate is called
lets, registers, sequential, parallel or case (all legal Jaqal identifiers, and
fine in text and in the builder) cannot be written: Q.lets(...) raises
TypeError, and Q.parallel() / Q.sequential() without arguments silently emit
NOTHING."""
import sys

from jaqalpaq.core import CircuitBuilder
from jaqalpaq.parser import parse_jaqal_string
from jaqalpaq.qsyntax import circuit

bad = 0
for name, nargs in [("lets", 1), ("registers", 1), ("parallel", 0), ("sequential", 0), ("parallel", 1), ("case", 1)]:
    arg = "r[0]" if nargs else ""
    text = f"register r[2]\nprepare_all\n{name} {arg}\nmeasure_all\n"
    text_circ = parse_jaqal_string(text, autoload_pulses=False)

    b = CircuitBuilder()
    r = b.register("r", 2)
    b.gate("prepare_all")
    b.gate(name, *([r[0]] if nargs else []))
    b.gate("measure_all")
    assert b.build() == text_circ  # text and builder agree

    @circuit
    def prog(Q):
        r = Q.register(2, "r")
        getattr(Q, name)(*([r[0]] if nargs else []))  # i.e.  Q.<name>(r[0])

    try:
        q_circ = prog()
    except Exception as exc:  # noqa
        print(f"gate {name!r}/{nargs}: Q.{name}({arg}) raised {type(exc).__name__}: {exc}")
        bad += 1
        continue
    if q_circ != text_circ:
        print(f"gate {name!r}/{nargs}: Q-syntax circuit differs from text; body = "
              f"{[s.name for s in q_circ.body.statements]} (gate silently dropped)")
        bad += 1
    else:
        print(f"gate {name!r}/{nargs}: ok")

sys.exit(1 if bad else 0)
