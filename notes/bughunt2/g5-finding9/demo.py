"""C06: an alias of a register PARAMETER (Parameter[slice], documented: "it can be indexed and
sliced, if it represents a Register parameter") cannot be resolved: resolve_size with the binding
context never returns, resolve_qubit ignores the context."""
import sys
import signal
from jaqalpaq.core import Register, Parameter, ParamType
from jaqalpaq.error import JaqalError


class Hang(Exception):
    pass


def alarm(*_):
    raise Hang()


signal.signal(signal.SIGALRM, alarm)

q = Register("q", 6)
p = Parameter("p", ParamType.REGISTER)
d = p[1:5:2]  # inside a macro: the qubits p[1], p[3]
context = {"p": q}
bad = 0

signal.alarm(5)
try:
    size = d.resolve_size(context)
    print("resolve_size(context) ->", size, "(expected 2)")
    bad += size != 2
except Hang:
    print("resolve_size(context) did not return within 5 s (expected 2)")
    bad += 1
except JaqalError as exc:
    print("resolve_size(context) -> JaqalError", exc, "(expected 2)")
    bad += 1
finally:
    signal.alarm(0)

signal.alarm(5)
try:
    got = d[1].resolve_qubit(context)
    print("d[1].resolve_qubit(context) ->", got, "(expected (q, 3))")
    bad += got != (q, 3)
except Hang:
    print("d[1].resolve_qubit(context) did not return within 5 s")
    bad += 1
except JaqalError as exc:
    print("d[1].resolve_qubit(context) -> JaqalError:", exc, "(expected (q, 3); p IS bound in the context)")
    bad += 1
finally:
    signal.alarm(0)
sys.exit(1 if bad else 0)
