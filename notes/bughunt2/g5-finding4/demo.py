"""C14: the circuit builder accepts a qubit object that belongs to a register the circuit does
not define (or to a bigger register of the same name): the circuit holds q[4] for `register q[2]`."""
import sys
import numpy as np
from jaqalpaq.core import CircuitBuilder, GateDefinition, Parameter, ParamType, Register
from jaqalpaq.core.gatedef import BusyGateDefinition
from jaqalpaq.core.algorithm import get_used_qubit_indices
from jaqalpaq.parser import parse_jaqal_string
from jaqalpaq.generator import generate_jaqal_program
from jaqalpaq.emulator import run_jaqal_circuit
from jaqalpaq.error import JaqalError

NATIVE = {
    "X": GateDefinition(
        "X",
        [Parameter("q", ParamType.QUBIT)],
        ideal_unitary=lambda: np.array([[0, 1], [1, 0]], dtype=complex),
    ),
    "prepare_all": BusyGateDefinition("prepare_all"),
    "measure_all": BusyGateDefinition("measure_all"),
}

# e.g. a qubit taken from another, bigger circuit
other = parse_jaqal_string("register q[5]\nG q[4]\n", autoload_pulses=False)
CASES = {
    "qubit 4 of a 5-qubit register also called q": other.registers["q"][4],
    "qubit 4 of a register r the circuit never declares": Register("r", 5)[4],
    "qubit 1 of a register r the circuit never declares": Register("r", 2)[1],
}
bad = 0
for label, qubit in CASES.items():
    print(label)
    try:
        b = CircuitBuilder(native_gates=NATIVE)
        b.register("q", 2)
        b.gate("prepare_all")
        b.gate("X", qubit)
        b.gate("measure_all")
        circuit = b.build()
        text = generate_jaqal_program(circuit)
        print("   build() accepted it:", text.replace("\n", "; "))
        print("   used qubits:", dict(get_used_qubit_indices(circuit)))
        res = run_jaqal_circuit(circuit)
        print("   emulator ran it:", [float(p) for p in res.subcircuits[0].probability_by_int])
        bad += 1
    except JaqalError as exc:
        print("   refused with JaqalError:", exc)
    except Exception as exc:
        print("   escaped", type(exc).__name__, ":", exc)
        bad += 1
sys.exit(1 if bad else 0)
