"""C16: a failing `from .<name> usepulses *` removes already-imported, unrelated
modules called <name> (numpy, jaqalpaq, __main__, ...) from sys.modules; a later
call on a valid program then fails although it succeeded before."""
import os, sys, tempfile, warnings

warnings.simplefilter("ignore")

from jaqalpaq.error import JaqalError
from jaqalpaq.parser import parse_jaqal_string
from jaqalpaq.run import run_jaqal_string

GATES = '''
import numpy as np
from jaqalpaq.core import GateDefinition, Parameter, ParamType
from jaqalpaq.core.gatedef import BusyGateDefinition

def _x():
    return np.array([[0, 1], [1, 0]], dtype=complex)

class jaqal_gates:
    ALL_GATES = {g.name: g for g in [
        BusyGateDefinition("prepare_all"),
        BusyGateDefinition("measure_all"),
        GateDefinition("X", [Parameter("q", ParamType.QUBIT)], ideal_unitary=_x),
    ]}
'''

workdir = tempfile.mkdtemp()
with open(os.path.join(workdir, "mygates.py"), "w") as fd:
    fd.write(GATES)

GOOD = "from .mygates usepulses *\nregister q[2]\nprepare_all\nX q[0]\nmeasure_all\n"


def outcome(text):
    try:
        res = run_jaqal_string(text, import_path=workdir)
        return ("result", [list(map(float, s.probability_by_int)) for s in res.subcircuits])
    except JaqalError as exc:
        return ("JaqalError", str(exc))
    except ImportError as exc:
        return ("ImportError", str(exc))
    except BaseException as exc:
        return (type(exc).__name__, str(exc))


def case(name):
    bad = f"from .{name} usepulses *\nregister q[2]\n"
    before = outcome(GOOD)
    module_before = sys.modules.get(name)
    bad_outcome = outcome(bad)  # there is no <name>.py in workdir: ImportError is fine
    module_after = sys.modules.get(name)
    after = outcome(GOOD)
    print(f"--- failing text: {bad!r}")
    print("  valid program before :", before)
    print("  failing call         :", bad_outcome)
    print(f"  sys.modules[{name!r}] untouched:", module_after is module_before)
    print("  valid program after  :", after)
    ok = bad_outcome[0] in ("ImportError", "JaqalError")
    if after != before or module_after is not module_before:
        print("  VIOLATION: the failed call changed the outcome of a later call")
        ok = False
    return ok


if len(sys.argv) > 1:
    sys.exit(0 if case(sys.argv[1]) else 1)

# every case in a fresh interpreter, so that they do not disturb each other
import subprocess

codes = [
    subprocess.call([sys.executable, os.path.abspath(__file__), name])
    for name in ("numpy", "jaqalpaq")
]
sys.exit(1 if any(codes) else 0)
