"""C16: the egg fallback of a relative `from .mod usepulses *` lets TypeError (any
matching egg) or packaging's InvalidVersion (a file name like mod-<text>-x.egg) escape."""
import os, sys, tempfile, warnings, zipfile

warnings.simplefilter("ignore")

from jaqalpaq.error import JaqalError
from jaqalpaq.parser import parse_jaqal_string

workdir = tempfile.mkdtemp()

# (a) a well-formed egg holding the pulse package `eggates`
with zipfile.ZipFile(os.path.join(workdir, "eggates-1.0-py3.egg"), "w") as z:
    z.writestr("eggates/__init__.py", "")
    z.writestr(
        "eggates/jaqal_gates.py",
        "from jaqalpaq.core import GateDefinition, Parameter, ParamType\n"
        "ALL_GATES = {'X': GateDefinition('X', [Parameter('q', ParamType.QUBIT)])}\n",
    )
# (b) a file that merely looks like an egg of module `other`; there is no module `other`
open(os.path.join(workdir, "other-final-py3.egg"), "w").close()

CASES = [
    ("egg with the pulse module", "from .eggates usepulses *\nregister q[1]\nX q[0]\n", ("circuit", "ImportError")),
    ("module that does not exist", "from .other usepulses *\nregister q[1]\n", ("ImportError",)),
]

failed = False
for label, text, allowed in CASES:
    try:
        parse_jaqal_string(text, import_path=workdir)
        got = "circuit"
        detail = ""
    except JaqalError as exc:
        got, detail = "JaqalError", str(exc)
    except ImportError as exc:
        got, detail = "ImportError", str(exc)
    except Exception as exc:
        got, detail = type(exc).__name__, str(exc)
    ok = got in allowed
    print(("ok       " if ok else "VIOLATION"), label, repr(text), "->", got, detail)
    failed = failed or not ok

sys.exit(1 if failed else 0)
