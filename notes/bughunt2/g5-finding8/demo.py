"""C14: Q-syntax: a qubit index or register size that is not a finite integer (nan, inf, None, a
string, a slice - directly or as the value of a Q.let) escapes as ValueError / OverflowError /
TypeError instead of JaqalError."""
import sys
from jaqalpaq.qsyntax import circuit
from jaqalpaq.error import JaqalError


def with_index(index):
    @circuit
    def prog(Q):
        r = Q.register(2, "r")
        Q.G(r[index])
    return prog


def with_let_index(value):
    @circuit
    def prog(Q):
        k = Q.let(value, "k")
        r = Q.register(2, "r")
        Q.G(r[k])
    return prog


def with_size(size):
    @circuit
    def prog(Q):
        r = Q.register(size, "r")
        Q.G(r[0])
    return prog


CASES = []
for v in [2, -1, 1.5, float("nan"), float("inf"), None, "a", slice(0, 1)]:
    CASES.append((f"r[{v!r}]", with_index(v)))
for v in [1.5, float("nan"), float("inf")]:
    CASES.append((f"k = Q.let({v!r}); r[k]", with_let_index(v)))
for v in [0, 2.5, float("nan"), float("inf"), None]:
    CASES.append((f"Q.register({v!r})", with_size(v)))

bad = 0
for label, prog in CASES:
    try:
        prog()
        print(label, "-> accepted")
        bad += 1
    except JaqalError as exc:
        print(label, "-> JaqalError:", exc)
    except Exception as exc:
        print(label, "-> escaped", type(exc).__name__, ":", exc)
        bad += 1
sys.exit(1 if bad else 0)
