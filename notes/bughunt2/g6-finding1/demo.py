"""C10: fill_in_map resolves every qubit NUMERICALLY (NamedQubit.resolve_qubit() in an empty
context) instead of rewriting it symbolically.

 (a) a qubit that depends on a macro parameter (q[i], r[0]) cannot be resolved: the pass -
     and parse_jaqal_string(expand_let_map=True) - refuse every program with such a macro;
 (b) a qubit that depends on a let constant (q[n], or an alias with a let-valued bound) is
     replaced by its value under the DECLARED let values: fill_in_map followed by
     fill_in_let(override) differs from fill_in_let(override) followed by fill_in_map.
"""
import sys
from jaqalpaq.error import JaqalError
from jaqalpaq.parser import parse_jaqal_string
from jaqalpaq.core.algorithm import expand_macros, fill_in_let, get_used_qubit_indices
from jaqalpaq.core.algorithm.fill_in_map import fill_in_map
from jaqalpaq.generator import generate_jaqal_program

bad = 0

print("(a) macro parameters")
for text in (
    "register q[3]\nmap a q[1:3]\nmacro m i { G q[i]; G a[0] }\nm 1\n",  # parameter as index
    "register q[3]\nmacro m r { G r[0] }\nm q\n",                        # parameter as register
):
    plain = parse_jaqal_string(text, autoload_pulses=False)
    want = dict(get_used_qubit_indices(expand_macros(plain)))
    print(" program:", text.replace("\n", "; "))
    try:
        filled = fill_in_map(plain)
        got = dict(get_used_qubit_indices(expand_macros(filled)))
        back = parse_jaqal_string(generate_jaqal_program(filled), autoload_pulses=False)
        got_back = dict(get_used_qubit_indices(expand_macros(back)))
        if got != want or got_back != want:
            print("   fill_in_map changed the meaning:", got, got_back, "expected", want)
            bad += 1
        else:
            print("   fill_in_map(plain parse): ok")
    except JaqalError as exc:
        print("   fill_in_map(plain parse) raised JaqalError:", exc)
        bad += 1
    # the parser flags (in the second call the macros are even expanded first)
    for kw in ({"expand_let_map": True}, {"expand_macro": True, "expand_let_map": True}):
        try:
            parse_jaqal_string(text, autoload_pulses=False, **kw)
            print("   parse_jaqal_string", kw, ": ok")
        except JaqalError as exc:
            print("   parse_jaqal_string", kw, "raised JaqalError:", exc)
            bad += 1

print("(b) let constants and overrides")
for text in (
    "let n 1\nregister q[4]\nG q[n]\n",                  # no alias at all
    "let n 1\nregister q[4]\nmap a q[n:4]\nG a[0]\n",    # alias with a let-valued bound
):
    override = {"n": 2}
    c = parse_jaqal_string(text, autoload_pulses=False)
    print(" program:", text.replace("\n", "; "), " override:", override)
    try:
        mapped = fill_in_map(c)
    except JaqalError as exc:
        # a library that declares the pass not applicable before let substitution
        print("   fill_in_map refuses:", exc)
        continue
    map_then_let = fill_in_let(mapped, override)
    let_then_map = fill_in_map(fill_in_let(c, override))
    a = dict(get_used_qubit_indices(map_then_let))
    b = dict(get_used_qubit_indices(let_then_map))
    print("   fill_in_map, then fill_in_let(override): gate acts on", a,
          "|", generate_jaqal_program(map_then_let).strip().splitlines()[-1])
    print("   fill_in_let(override), then fill_in_map: gate acts on", b,
          "|", generate_jaqal_program(let_then_map).strip().splitlines()[-1])
    if a != b:
        print("   -> the two orders give circuits with different meaning")
        bad += 1

if bad:
    print(f"VIOLATION ({bad} cases)")
    sys.exit(1)
print("no violation")
