"""C01: the builder's gate memo treats numerically equal literals as the same
argument (1 == 1.0 == hash-equal, 0 == -0.0), so a later statement is replaced
by the earlier one: `foo 1.0 ; foo 1` comes back as `foo 1.0 ; foo 1.0`,
`foo 0 ; foo -0.0` as `foo 0 ; foo 0` - a numeric literal is altered by the
trip, and how depends on the order of the statements."""
import math
import sys

from jaqalpaq.generator import generate_jaqal_program
from jaqalpaq.parser import parse_jaqal_string

bad = 0
for first, second in (("1.0", "1"), ("1", "1.0"), ("0", "-0.0"), ("-0.0", "0.0")):
    text = f"register q[1]\nfoo {first}\nfoo {second}\n"
    alone = parse_jaqal_string(f"register q[1]\nfoo {second}\n", autoload_pulses=False)
    want = list(alone.body.statements[0].parameters.values())[0]
    circ = parse_jaqal_string(text, autoload_pulses=False)
    got = list(circ.body.statements[1].parameters.values())[0]
    same = type(got) is type(want) and got == want and math.copysign(1, got) == math.copysign(1, want)
    out = generate_jaqal_program(circ).split("\n")[-2]
    print(f"foo {first} ; foo {second:5} -> second statement holds {got!r:5} (written alone: {want!r:5}), "
          f"generated as {out!r}{'' if same else '   <-- altered'}")
    bad += not same

sys.exit(1 if bad else 0)
