"""C12: a well-bracketed Q-syntax program whose FIRST statement is an empty loop
(or empty block) followed by subcircuit blocks is refused: the Q front end decides
from the first statement alone that the user wrote no prepare_all, wraps the
whole body in an implicit prepare_all ... measure_all, and the resulting program
is (correctly) rejected by the subcircuit discovery.

Text form (accepted, cf. examples/jaqal/empty_loop_outside_subcircuit.jaqal):
    register q[1]; loop 10 { }; subcircuit { X q[0] }
"""
import sys
import numpy

from jaqalpaq.core import GateDefinition, Parameter, ParamType
from jaqalpaq.core.gatedef import BusyGateDefinition
from jaqalpaq.parser import parse_jaqal_string
from jaqalpaq.qsyntax import circuit
from jaqalpaq.emulator import run_jaqal_circuit
from jaqalpaq.generator import generate_jaqal_program
from jaqalpaq.error import JaqalError

gates = {
    "X": GateDefinition(
        "X",
        [Parameter("q", ParamType.QUBIT)],
        ideal_unitary=lambda: numpy.array([[0, 1], [1, 0]], dtype=complex),
    ),
    "prepare_all": BusyGateDefinition("prepare_all"),
    "measure_all": BusyGateDefinition("measure_all"),
}


@circuit(inject_pulses=gates)
def program(Q, repeats):
    q = Q.register(1, name="q")
    with Q.loop(10):
        for _ in range(repeats):  # e.g. a padding loop that happens to be empty
            Q.X(q[0])
    with Q.subcircuit():
        Q.X(q[0])


text = "register q[1]; loop 10 { }; subcircuit { X q[0] }"
ref = run_jaqal_circuit(parse_jaqal_string(text, inject_pulses=gates, autoload_pulses=False))
print("text form      :", len(ref.subcircuits), "subcircuit,", [r.as_int for r in ref.readouts])

qcirc = program(0)
print("Q-syntax builds:\n" + generate_jaqal_program(qcirc))
try:
    res = run_jaqal_circuit(qcirc)
except JaqalError as exc:
    print("VIOLATION: the Q-syntax form of the same well-bracketed program is refused:", exc)
    sys.exit(1)
print("Q-syntax form  :", len(res.subcircuits), "subcircuit,", [r.as_int for r in res.readouts])
if len(res.subcircuits) != 1 or [r.as_int for r in res.readouts] != [1]:
    print("VIOLATION: wrong subcircuits")
    sys.exit(1)
print("ok")
