"""C15: for every subcircuit result the probabilities are non-negative and sum to one.
ProbabilisticSubcircuit has a sanity check for this (warn above 1e-13, RuntimeError above
2e-6) - but every comparison in it is False for NaN, so a subcircuit whose state became
NaN (a rotation by the literal 1.0e999 = inf, which parser, kind check and all passes
accept) yields a result object whose probabilities are all NaN, without warning; as soon
as one readout is sampled the run dies with numpy's ValueError instead."""
import sys
import warnings
import numpy as np
from jaqalpaq.core import GateDefinition, Parameter, ParamType
from jaqalpaq.core.gatedef import BusyGateDefinition
from jaqalpaq.parser import parse_jaqal_string
from jaqalpaq.run import run_jaqal_circuit
from jaqalpaq.error import JaqalError


def ry(t):
    c, s = np.cos(t / 2), np.sin(t / 2)
    return np.array([[c, -s], [s, c]], dtype=complex)


gates = {
    "prepare_all": BusyGateDefinition("prepare_all"),
    "measure_all": BusyGateDefinition("measure_all"),
    "Ry": GateDefinition(
        "Ry",
        [Parameter("q", ParamType.QUBIT), Parameter("t", ParamType.FLOAT)],
        ideal_unitary=ry,
    ),
}
bad = 0
np.seterr(all="ignore")


def run(title, text):
    global bad
    circ = parse_jaqal_string(text, inject_pulses=gates, autoload_pulses=False)
    with warnings.catch_warnings(record=True) as caught:
        warnings.simplefilter("always")
        try:
            res = run_jaqal_circuit(circ)
        except (JaqalError, RuntimeError) as exc:
            # the library's own verdict on unusable probabilities: acceptable
            print(f"{title}: refused with {type(exc).__name__}: {exc}")
            return
        except Exception as exc:  # noqa
            print(f"{title}: crashed with {type(exc).__name__}: {exc}   <-- WRONG")
            bad += 1
            return
    for sc in res.subcircuits:
        p = np.asarray(sc.probability_by_int)
        good = np.all(p >= 0) and abs(p.sum() - 1) < 1e-9
        print(
            f"{title}: subcircuit {sc.index} probabilities {dict(sc.probability_by_str)}"
            f" warnings={[str(w.message) for w in caught if 'probabilit' in str(w.message)]}"
            + ("" if good else "   <-- WRONG: not a distribution, nothing reported")
        )
        bad += not good


# (a) the subcircuit is executed once: sampling trips over the NaNs
run("executed", "register q[2]\nprepare_all\nRy q[0] 1.0e999\nmeasure_all\n")
# (b) the subcircuit is computed but never sampled: the NaNs are handed to the caller
run(
    "not sampled",
    "register q[2]\nloop 0 { prepare_all\n Ry q[0] 1.0e999\n measure_all }\n",
)

print("VIOLATED" if bad else "ok")
sys.exit(1 if bad else 0)
