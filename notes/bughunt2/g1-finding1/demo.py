"""C17: Q-syntax with autoload_pulses="ignore" (the default) does not "continue
in the case of failure": with inject_pulses given (or with a usepulses module
that can be imported but is not a gate module) the decorated function raises
ModuleNotFoundError, while the same program written as text or with the
CircuitBuilder builds fine - and all three must give equal circuits."""
import sys

from jaqalpaq.core import CircuitBuilder, GateDefinition, Parameter, ParamType
from jaqalpaq.parser import parse_jaqal_string
from jaqalpaq.qsyntax import circuit

MODULE = "no_such_pkg_bh2.gates"  # not importable on this machine


def gates():
    return [
        GateDefinition("prepare_all"),
        GateDefinition("measure_all"),
        GateDefinition("Px", [Parameter("q", ParamType.QUBIT)]),
    ]


TEXT = f"from {MODULE} usepulses *\nregister r[2]\nprepare_all\nPx r[0]\nmeasure_all\n"

failed = False

# 1. text front end
text_circ = parse_jaqal_string(TEXT, inject_pulses=gates(), autoload_pulses=False)

# 2. builder front end
b = CircuitBuilder(native_gates=gates())
b.usepulses(MODULE)
r = b.register("r", 2)
b.gate("prepare_all")
b.gate("Px", r[0])
b.gate("measure_all")
builder_circ = b.build()
print("text == builder:", text_circ == builder_circ)
failed |= text_circ != builder_circ


# 3. Q-syntax front end, default autoload_pulses="ignore"
@circuit(inject_pulses=gates())
def prog(Q):
    Q.usepulses(MODULE)
    r = Q.register(2, "r")
    Q.Px(r[0])


try:
    q_circ = prog()
    print("text == Q-syntax:", text_circ == q_circ)
    failed |= text_circ != q_circ
except Exception as exc:  # noqa
    print(f"Q-syntax (inject_pulses + usepulses) raised {type(exc).__name__}: {exc}")
    failed = True


# 3b. same root cause without inject_pulses: the probe import succeeds
# ("math" exists) but the module holds no gates; "ignore" must fall back to
# anonymous gates like it does for a module that cannot be imported at all.
@circuit
def prog2(Q):
    Q.usepulses("math")
    r = Q.register(2, "r")
    Q.Px(r[0])


text2 = parse_jaqal_string(
    "from math usepulses *\nregister r[2]\nprepare_all\nPx r[0]\nmeasure_all\n",
    autoload_pulses=False,
)
try:
    q2 = prog2()
    print("text == Q-syntax (module without gates):", text2 == q2)
    failed |= text2 != q2
except Exception as exc:  # noqa
    print(f"Q-syntax (usepulses math) raised {type(exc).__name__}: {exc}")
    failed = True

sys.exit(1 if failed else 0)
