"""C18: an argument is accepted exactly when it fits the declared kind (integer,
float, ...).  numpy integers (and numpy floats other than float64) are refused for INT
and FLOAT parameters, although numpy.float64 is accepted and the rest of the library
(builder for untyped gates, generator) handles numpy numbers."""
import sys
import numpy as np
from jaqalpaq.core import GateDefinition, Parameter, ParamType, CircuitBuilder
from jaqalpaq.generator import generate_jaqal_program
from jaqalpaq.error import JaqalError

gi = GateDefinition("GI", [Parameter("n", ParamType.INT)])
gf = GateDefinition("GF", [Parameter("x", ParamType.FLOAT)])
bad = 0


def check(gate, value, want):
    global bad
    try:
        gate(value)
        got = "accepted"
    except JaqalError as exc:
        got = f"refused ({exc})"
    flag = "" if got.startswith(want) else "   <-- WRONG"
    if flag:
        bad += 1
    print(f"{gate.name}({value!r:22}) {got}{flag}")


# reference behaviour with Python numbers
check(gi, 3, "accepted")
check(gi, 3.0, "accepted")
check(gi, 2.5, "refused")
check(gf, 3, "accepted")
check(gf, 0.5, "accepted")
# numpy.float64 behaves like float already
check(gi, np.float64(3.0), "accepted")
check(gf, np.float64(0.5), "accepted")
check(gi, np.float64(2.5), "refused")
# numpy integers are integers; numpy.float32 is a float
for v in (np.int64(3), np.int32(3), np.uint8(3), np.arange(4)[3]):
    check(gi, v, "accepted")
    check(gf, v, "accepted")
check(gf, np.float32(0.5), "accepted")
check(gi, np.float32(3.0), "accepted")
check(gi, np.float32(2.5), "refused")

# the same value is fine for an untyped gate and is printed as a Jaqal literal
b = CircuitBuilder()
q = b.register("q", 1)
b.gate("H", q[0], np.int64(3))
print(generate_jaqal_program(b.build()).strip().splitlines()[-1], "  (untyped gate: accepted)")
# ... but the typed native gate refuses it in the builder
b = CircuitBuilder(native_gates={"GI": gi})
b.gate("GI", np.arange(4)[3])
try:
    b.build()
except JaqalError as exc:
    print("builder, native GI with numpy.int64(3):", exc)
    bad += 1

print("VIOLATED" if bad else "ok")
sys.exit(1 if bad else 0)
