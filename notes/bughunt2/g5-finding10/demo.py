"""C06: a let constant defined by another let (Constant("b", Constant("a", 1)), documented in
Constant) used as a qubit index: resolution, used-qubit analysis and fill_in_map say q[1], but
fill_in_let - and with it the emulator - refuses the circuit."""
import sys
import numpy as np
from jaqalpaq.core import CircuitBuilder, GateDefinition, Parameter, ParamType
from jaqalpaq.core.gatedef import BusyGateDefinition
from jaqalpaq.core.algorithm import get_used_qubit_indices, fill_in_let
from jaqalpaq.core.algorithm.fill_in_map import fill_in_map
from jaqalpaq.generator import generate_jaqal_program
from jaqalpaq.emulator import run_jaqal_circuit
from jaqalpaq.error import JaqalError

NATIVE = {
    "X": GateDefinition("X", [Parameter("q", ParamType.QUBIT)],
                        ideal_unitary=lambda: np.array([[0, 1], [1, 0]], dtype=complex)),
    "prepare_all": BusyGateDefinition("prepare_all"),
    "measure_all": BusyGateDefinition("measure_all"),
}
b = CircuitBuilder(native_gates=NATIVE)
a = b.let("a", 1)
bb = b.let("b", a)  # a Constant whose value is another Constant
q = b.register("q", 2)
b.gate("prepare_all")
b.gate("X", q[bb])
b.gate("measure_all")
circuit = b.build()
gate = circuit.body.statements[1]
answers = {}
for name, fn in [
    ("resolve_qubit", lambda: list(gate.parameters.values())[0].resolve_qubit()[1]),
    ("used qubits", lambda: sorted(get_used_qubit_indices(gate)["q"])[0]),
    ("fill_in_map", lambda: list(fill_in_map(circuit).body.statements[1].parameters.values())[0].resolve_qubit()[1]),
    ("fill_in_let", lambda: list(fill_in_let(circuit).body.statements[1].parameters.values())[0].resolve_qubit()[1]),
    ("emulator", lambda: int(np.argmax(run_jaqal_circuit(circuit).subcircuits[0].probability_by_int)).bit_length() - 1),
]:
    try:
        answers[name] = fn()
    except JaqalError as exc:
        answers[name] = f"JaqalError: {exc}"
    print(name, "->", answers[name])
sys.exit(0 if set(answers.values()) == {1} else 1)
