"""C03: a register alias given with an open-ended Python slice (stop None, e.g.
slice(1, None) = q[1:]) cannot be used: indexing it raises TypeError, although a
missing start (None) and a missing step (None) are handled by the very same code.

register q[3]; alias a = q[1:]; X a[0]  ==  X q[1]  -> outcome "010"
"""
import sys
import numpy

from jaqalpaq.core import Circuit, GateDefinition, Parameter, ParamType, Register
from jaqalpaq.core.gatedef import BusyGateDefinition
from jaqalpaq.emulator import run_jaqal_circuit
from jaqalpaq.error import JaqalError

gates = {
    "X": GateDefinition(
        "X",
        [Parameter("q", ParamType.QUBIT)],
        ideal_unitary=lambda: numpy.array([[0, 1], [1, 0]], dtype=complex),
    ),
    "prepare_all": BusyGateDefinition("prepare_all"),
    "measure_all": BusyGateDefinition("measure_all"),
}

q = Register("q", 3)
# start None and step None work:
print("q[:2]  ->", Register("h", alias_from=q, alias_slice=slice(None, 2))[1].resolve_qubit())
a = Register("a", alias_from=q, alias_slice=slice(1, None))  # q[1:], accepted

try:
    qubit = a[0]
    circuit = Circuit(native_gates=gates)
    circuit.registers["q"] = q
    circuit.registers["a"] = a
    circuit.body.statements.extend(
        [gates["prepare_all"](), gates["X"](qubit), gates["measure_all"]()]
    )
    result = run_jaqal_circuit(circuit)
except JaqalError as exc:
    print("refused with JaqalError:", exc)
    sys.exit(0)
except Exception as exc:
    print(f"VIOLATION: {type(exc).__name__}: {exc}")
    sys.exit(1)

probs = result.subcircuits[0].simulated_probability_by_str
print(dict(probs))
if abs(probs["010"] - 1.0) > 1e-9:
    print("VIOLATION: wrong state")
    sys.exit(1)
print("ok")
