"""C16: a numeric gate argument without a finite float value (integer literal above
1.8e308, or a float literal that overflows to infinity) is accepted as FLOAT argument and
escapes from run_jaqal_string as OverflowError / ValueError."""
import os, sys, tempfile, warnings

warnings.simplefilter("ignore")

from jaqalpaq.error import JaqalError
from jaqalpaq.run import run_jaqal_string

GATES = '''
import numpy as np
from jaqalpaq.core import GateDefinition, Parameter, ParamType
from jaqalpaq.core.gatedef import BusyGateDefinition

def _rx(t):
    c, s = np.cos(t / 2), np.sin(t / 2)
    return np.array([[c, -1j * s], [-1j * s, c]])

class jaqal_gates:
    ALL_GATES = {g.name: g for g in [
        BusyGateDefinition("prepare_all"),
        BusyGateDefinition("measure_all"),
        GateDefinition("Rx", [Parameter("q", ParamType.QUBIT), Parameter("t", ParamType.FLOAT)],
                       ideal_unitary=_rx),
    ]}
'''
workdir = tempfile.mkdtemp()
with open(os.path.join(workdir, "mygates.py"), "w") as fd:
    fd.write(GATES)

HEAD = "from .mygates usepulses *\n"
BIG = "1" + "0" * 400
PROGRAMS = [
    HEAD + f"register q[1]\nprepare_all\nRx q[0] {BIG}\nmeasure_all\n",
    HEAD + f"let t {BIG}\nregister q[1]\nprepare_all\nRx q[0] t\nmeasure_all\n",
    HEAD + "register q[1]\nprepare_all\nRx q[0] 1.0e999\nmeasure_all\n",
]

failed = False
for text in PROGRAMS:
    shown = text.replace(BIG, "1<400 zeros>")
    try:
        res = run_jaqal_string(text, import_path=workdir)
        print("result   ", repr(shown), [list(s.probability_by_int) for s in res.subcircuits])
    except JaqalError as exc:
        print("refused  ", repr(shown), "JaqalError:", str(exc)[:80])
    except Exception as exc:
        print("VIOLATION", repr(shown), f"{type(exc).__name__}: {exc}")
        failed = True

sys.exit(1 if failed else 0)
