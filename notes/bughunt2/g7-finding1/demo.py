"""C18: calling a gate definition by keyword must give the same statement as the
positional call.  A parameter named `self` (a legal Jaqal identifier) breaks it."""
import sys
from jaqalpaq.core import GateDefinition, Parameter, ParamType
from jaqalpaq.core.register import Register
from jaqalpaq.parser import parse_jaqal_string
from jaqalpaq.error import JaqalError

q = Register("q", 2)
bad = 0

gate = GateDefinition(
    "G", [Parameter("self", ParamType.QUBIT), Parameter("t", ParamType.FLOAT)]
)
positional = gate(q[0], 0.5)
print("positional call :", positional)
for how, fn in (("__call__", gate), ("call", gate.call)):
    try:
        keyword = fn(self=q[0], t=0.5)
    except Exception as exc:  # noqa
        print(f"keyword {how:9s}: {type(exc).__name__}: {exc}")
        bad += 1
    else:
        print(f"keyword {how:9s}:", keyword)
        if keyword != positional:
            bad += 1

# The same for a macro written in Jaqal text whose parameter is called self
circ = parse_jaqal_string(
    "register q[2]\nmacro m self { X self }\nm q[1]\n", autoload_pulses=False
)
macro = circ.macros["m"]
qq = circ.registers["q"]
positional = macro(qq[1])
try:
    keyword = macro(self=qq[1])
except Exception as exc:  # noqa
    print(f"macro keyword call: {type(exc).__name__}: {exc}")
    bad += 1
else:
    if keyword != positional:
        bad += 1

# a wrong keyword must still be a JaqalError
try:
    gate(self=q[0], u=0.5)
except JaqalError:
    pass
except Exception as exc:  # noqa
    print(f"wrong keyword: {type(exc).__name__} instead of JaqalError")
    bad += 1

print("VIOLATED" if bad else "ok")
sys.exit(1 if bad else 0)
