"""C14: an alias whose LET-valued slice bounds reach outside its source (start -1, stop beyond the
source) is honoured by qubit resolution, used-qubit analysis and fill_in_map: a[1] of q[s:2] with
s = -1 becomes q[0]."""
import sys
from jaqalpaq.parser import parse_jaqal_string
from jaqalpaq.core.algorithm import get_used_qubit_indices
from jaqalpaq.core.algorithm.fill_in_map import fill_in_map
from jaqalpaq.generator import generate_jaqal_program
from jaqalpaq.error import JaqalError

CASES = [
    # (program, description)
    ("let s -1\nregister q[3]\nmap a q[s:2]\nX a[1]\n", "start -1: a = q[-1:2]"),
    ("let n 10\nregister q[3]\nmap a q[0:n:2]\nX a[1]\n", "stop 10 > 3: a = q[0:10:2]"),
    ("let n 2\nregister q[n]\nmap a q[0:5]\nX a[1]\n", "literal stop 5 > let-sized source q[2]"),
]
bad = 0
for text, what in CASES:
    print(what, "|", text.replace("\n", "; "))
    try:
        circuit = parse_jaqal_string(text, autoload_pulses=False)
    except JaqalError as exc:
        print("   refused at parsing:", exc)
        continue
    gate = circuit.body.statements[0]
    qubit = list(gate.parameters.values())[0]
    accepted = []
    for name, fn in [
        ("NamedQubit.resolve_qubit", lambda: qubit.resolve_qubit()),
        ("get_used_qubit_indices", lambda: dict(get_used_qubit_indices(gate))),
        ("fill_in_map", lambda: generate_jaqal_program(fill_in_map(circuit)).replace("\n", "; ")),
    ]:
        try:
            print(f"   {name}: accepted ->", fn())
            accepted.append(name)
        except JaqalError as exc:
            print(f"   {name}: JaqalError:", exc)
    if accepted:
        bad += 1
sys.exit(1 if bad else 0)
