"""C15: hardware outputs given as int or as str are interpreted identically and the
relative frequencies are the counts of the recorded readouts.  An outcome 0/1 delivered
as bool (Python bool IS an int; numpy.bool_ likewise comes out of comparisons such as
`counts > threshold`) is recorded as readout 1/0 but counted in EVERY bin / in NO bin."""
import sys
import numpy as np
from jaqalpaq.parser import parse_jaqal_string
from jaqalpaq.core.result import parse_jaqal_output_list

bad = 0
for n in (1, 2):
    circ = parse_jaqal_string(
        f"register q[{n}]\nloop 3 {{ prepare_all\n measure_all }}\n",
        autoload_pulses=False,
    )
    ints = [1, 0, 1]
    ref = parse_jaqal_output_list(circ, ints).subcircuits[0]
    want = list(ref.relative_frequency_by_int)
    forms = {
        "str": ["1" + "0" * (n - 1), "0" * n, "1" + "0" * (n - 1)],
        "bool": [True, False, True],
        "numpy.bool_": list(np.array(ints) > 0),
        "numpy.int64": list(np.array(ints)),
    }
    print(f"n={n} int outputs {ints}: counts {want}")
    for name, outs in forms.items():
        try:
            res = parse_jaqal_output_list(circ, outs)
        except Exception as exc:  # a clean refusal would be acceptable too
            print(f"   {name:12s} refused: {type(exc).__name__}: {exc}")
            if type(exc).__name__ != "JaqalError":
                bad += 1
            continue
        sc = res.subcircuits[0]
        got = list(sc.relative_frequency_by_int)
        ro = [(int(r.as_int), r.as_str) for r in res.readouts]
        recount = [sum(1 for r in sc.readouts if r.as_int == k) for k in range(2**n)]
        ok = got == want and recount == got
        print(
            f"   {name:12s} readouts {ro} counts {got}"
            + ("" if ok else f"   <-- WRONG (readouts recount to {recount})")
        )
        bad += not ok

print("VIOLATED" if bad else "ok")
sys.exit(1 if bad else 0)
