"""C06: fill_in_map refuses every circuit that has a macro whose body indexes with,
or into, a macro parameter (q[i], p[0], a[i])."""
import sys
from jaqalpaq.parser import parse_jaqal_string
from jaqalpaq.core.algorithm.fill_in_map import fill_in_map
from jaqalpaq.core.algorithm import get_used_qubit_indices
from jaqalpaq.error import JaqalError

PROGRAMS = [
    # index given by a macro parameter, directly into the fundamental register
    "register q[3]\nmap a q[1:3]\nmacro m i { X q[i] }\nm 1\nX a[0]\n",
    # a register handed to a macro and indexed there
    "register q[3]\nmap a q[1:3]\nmacro m p { X p[0] }\nm q\nX a[0]\n",
]
bad = 0
for text in PROGRAMS:
    circuit = parse_jaqal_string(text, autoload_pulses=False)
    print(text.replace("\n", "; "))
    print("  used qubits of the whole circuit:", dict(get_used_qubit_indices(circuit)))
    try:
        filled = fill_in_map(circuit)
    except JaqalError as exc:
        print("  fill_in_map refused the (valid) circuit: JaqalError:", exc)
        bad += 1
        continue
    got = dict(get_used_qubit_indices(filled))
    print("  fill_in_map ok, used qubits after:", got)
    if got != dict(get_used_qubit_indices(circuit)):
        bad += 1
    # the same through the documented parser switch
try:
    parse_jaqal_string(PROGRAMS[0], autoload_pulses=False, expand_let_map=True)
    print("parse_jaqal_string(expand_let_map=True): ok")
except JaqalError as exc:
    print("parse_jaqal_string(expand_let_map=True) refused it too:", exc)
    bad += 1
sys.exit(1 if bad else 0)
