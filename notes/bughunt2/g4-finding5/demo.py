"""C05: an override that ENLARGES a let-sized register cannot be used with a
literal index: the literal is checked against the DECLARED let value while the
text is built, before the override is applied.  The same qubit addressed through
a let-valued index or through an alias is accepted."""
import sys
from jaqalpaq.parser import parse_jaqal_string
from jaqalpaq.generator import generate_jaqal_program
from jaqalpaq.error import JaqalError

override = {"n": 3}
programs = {
    "literal index       ": "let n 2; register q[n]; G q[2]",
    "let-valued index    ": "let n 2; let i 2; register q[n]; G q[i]",
    "literal, via alias  ": "let n 2; register q[n]; map a q[0:3]; G a[2]",
}
results = {}
for label, text in programs.items():
    try:
        c = parse_jaqal_string(text, autoload_pulses=False, expand_let=True, override_dict=override)
        gate = c.body.statements[0]
        (qubit,) = gate.parameters.values()
        reg, idx = qubit.resolve_qubit()
        results[label] = f"accepted: register {reg.name}[{reg.size}], G on {reg.name}[{idx}]"
    except JaqalError as exc:
        results[label] = f"refused: {exc}"
    print(label, "|", text, "| override", override, "->", results[label])

# All three denote `G` on qubit 2 of a 3-qubit register in the environment n=3.
bad = [k for k, v in results.items() if not v.startswith("accepted: register q[3], G on q[2]")]
sys.exit(1 if bad else 0)
