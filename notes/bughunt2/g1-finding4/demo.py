"""C01: `subcircuit` (and `branch`) are keywords of the lexer but are missing
from RESERVED_WORDS, so the library's own predicate is_identifier_valid()
calls them legal identifiers.  A circuit built through the builder API with
such a name (let, register, gate or macro name) generates text the parser
refuses."""
import sys

from jaqalpaq.core import CircuitBuilder
from jaqalpaq.core.identifier import is_identifier_valid
from jaqalpaq.error import JaqalError
from jaqalpaq.generator import generate_jaqal_program
from jaqalpaq.parser import parse_jaqal_string

bad = 0
for word in ("subcircuit", "branch"):
    legal = bool(is_identifier_valid(word))
    print(f"is_identifier_valid({word!r}) = {legal}")
    b = CircuitBuilder()
    c = b.let(word, 3)
    q = b.register("q", 2)
    b.gate("foo", q[0], c)
    circ = b.build()
    text = generate_jaqal_program(circ)
    try:
        again = parse_jaqal_string(text, autoload_pulses=False)
        ok = again == circ
        print("   round trip equal:", ok)
    except JaqalError as exc:
        print("   generated text refused:", exc)
        ok = False
    # the property holds if the name is either not a legal identifier, or round-trips
    if legal and not ok:
        print(f"   VIOLATION: {word!r} is a legal identifier for the library but does not survive the round trip")
        bad += 1

sys.exit(1 if bad else 0)
