"""C04: a chain of macros calling macros deeper than ~130 levels makes
expand_macros (and parse_jaqal_string(..., expand_macro=True)) raise
RecursionError instead of returning the expanded circuit."""
import sys
from jaqalpaq.parser import parse_jaqal_string
from jaqalpaq.core.algorithm import expand_macros
from jaqalpaq.error import JaqalError

DEPTH = 200
lines = ["register q[2]", "macro m0 a { G a }"]
for k in range(1, DEPTH):
    lines.append(f"macro m{k} a {{ m{k-1} a }}")
lines.append(f"m{DEPTH-1} q[1]")
text = "\n".join(lines) + "\n"

circuit = parse_jaqal_string(text, autoload_pulses=False)  # parses fine
bad = 0
for label, call in (
    ("expand_macros(circuit)", lambda: expand_macros(circuit)),
    (
        "parse_jaqal_string(text, expand_macro=True)",
        lambda: parse_jaqal_string(text, autoload_pulses=False, expand_macro=True),
    ),
):
    try:
        result = call()
    except JaqalError as exc:
        print(label, "-> refused with JaqalError:", exc)
        # a refusal is not what the property promises either, but it is not a crash
        bad += 1
    except RecursionError as exc:
        print(label, "-> RecursionError:", exc)
        bad += 1
    else:
        stmts = result.body.statements
        ok = len(stmts) == 1 and stmts[0].name == "G" and [
            v.name for v in stmts[0].parameters.values()
        ] == ["q[1]"]
        print(label, "->", stmts, "OK" if ok else "WRONG")
        bad += 0 if ok else 1
sys.exit(1 if bad else 0)
