"""C13: used-qubit analysis of a `subcircuit { ... }` block ignores its implicit prepare_all and
measure_all: the same program gives {0} before and {0,1,2} after expand_subcircuits."""
import sys
from jaqalpaq.core import GateDefinition, Parameter, ParamType
from jaqalpaq.core.gatedef import BusyGateDefinition
from jaqalpaq.core.algorithm import get_used_qubit_indices, expand_subcircuits, expand_macros
from jaqalpaq.parser import parse_jaqal_string

NATIVE = {
    "X": GateDefinition("X", [Parameter("q", ParamType.QUBIT)]),
    "prepare_all": BusyGateDefinition("prepare_all"),
    "measure_all": BusyGateDefinition("measure_all"),
}
bad = 0
for text in [
    "register q[3]\nsubcircuit { X q[0] }\n",
    "register q[3]\nsubcircuit 5 { }\n",
    "register q[3]\nmacro m a { subcircuit { X a } }\nm q[0]\n",
]:
    circuit = parse_jaqal_string(text, inject_pulses=NATIVE, autoload_pulses=False)
    explicit = expand_macros(expand_subcircuits(circuit))
    before = {k: set(v) for k, v in get_used_qubit_indices(circuit).items() if v}
    after = {k: set(v) for k, v in get_used_qubit_indices(explicit).items() if v}
    print(text.replace("\n", "; "))
    print("   used qubits as written                    :", before)
    print("   used qubits with prepare/measure explicit :", after)
    if before != after:
        bad += 1
sys.exit(1 if bad else 0)
