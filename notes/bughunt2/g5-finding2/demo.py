"""C06: an alias built with a defaulted slice stop (slice(1, None, 2)) through the documented
Register constructor cannot be sized, indexed or resolved: TypeError."""
import sys
from jaqalpaq.core import Register
from jaqalpaq.error import JaqalError

q = Register("q", 6)
bad = 0
for sl, want in [
    (slice(1, None, 2), [1, 3, 5]),
    (slice(None, None, None), [0, 1, 2, 3, 4, 5]),
    (slice(2, None), [2, 3, 4, 5]),
    (slice(None, 4), [0, 1, 2, 3]),  # defaulted start works
]:
    try:
        a = Register("a", alias_from=q, alias_slice=sl)
        size = a.size
        got = [a[i].resolve_qubit()[1] for i in range(size)]
        ok = got == want
        print(sl, "-> size", size, "elements", got, "expected", want, "OK" if ok else "WRONG")
        bad += not ok
    except JaqalError as exc:
        print(sl, "-> JaqalError", exc, " (expected elements", want, ")")
        bad += 1
    except Exception as exc:
        print(sl, "-> escaped", type(exc).__name__, ":", exc, " (expected elements", want, ")")
        bad += 1
sys.exit(1 if bad else 0)
