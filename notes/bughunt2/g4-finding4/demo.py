"""C05: an override (or let value) >= 2**63 that reaches an alias slice bound
escapes as OverflowError from Register.resolve_size instead of a result or a
JaqalError."""
import sys
from jaqalpaq.parser import parse_jaqal_string
from jaqalpaq.core.algorithm import fill_in_let
from jaqalpaq.error import JaqalError

bad = 0
text = "let x 4; register s[x]; map r s[0:x]; G r[1]"
circuit = parse_jaqal_string(text, autoload_pulses=False)
for label, call in (
    ("fill_in_let(c, {'x': 1e300})", lambda: fill_in_let(circuit, {"x": 1e300})),
    ("fill_in_let(c, {'x': 2**63})", lambda: fill_in_let(circuit, {"x": 2**63})),
    (
        "parse_jaqal_string(text, expand_let=True, override_dict={'x': 1e300})",
        lambda: parse_jaqal_string(text, autoload_pulses=False, expand_let=True, override_dict={"x": 1e300}),
    ),
    (
        "parse 'let k 9223372036854775808; register b[5]; map n b[0:k]; G n[1]'",
        lambda: parse_jaqal_string(
            "let k 9223372036854775808; register b[5]; map n b[0:k]; G n[1]", autoload_pulses=False
        ),
    ),
):
    try:
        call()
        print(label, "-> accepted")
    except JaqalError as exc:
        print(label, "-> JaqalError:", exc)
    except Exception as exc:  # noqa
        print(label, "->", type(exc).__name__ + ":", exc)
        bad += 1
# control: one less is handled
print("control 2**63-1:", type(fill_in_let(circuit, {"x": 2**63 - 1})).__name__)
sys.exit(1 if bad else 0)
