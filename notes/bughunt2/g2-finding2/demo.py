"""C16: a two-qubit gate applied to the same qubit twice (directly or through a map
alias / macro argument) escapes from run_jaqal_string as RuntimeError."""
import os, sys, tempfile, warnings

warnings.simplefilter("ignore")

from jaqalpaq.error import JaqalError
from jaqalpaq.run import run_jaqal_string

GATES = '''
import numpy as np
from jaqalpaq.core import GateDefinition, Parameter, ParamType
from jaqalpaq.core.gatedef import BusyGateDefinition

def _ms(t):
    c, s = np.cos(t / 2), np.sin(t / 2)
    return np.array([[c, 0, 0, -1j * s], [0, c, -1j * s, 0],
                     [0, -1j * s, c, 0], [-1j * s, 0, 0, c]])

class jaqal_gates:
    ALL_GATES = {g.name: g for g in [
        BusyGateDefinition("prepare_all"),
        BusyGateDefinition("measure_all"),
        GateDefinition("MS", [Parameter("a", ParamType.QUBIT), Parameter("b", ParamType.QUBIT),
                              Parameter("t", ParamType.FLOAT)], ideal_unitary=_ms),
    ]}
'''
workdir = tempfile.mkdtemp()
with open(os.path.join(workdir, "mygates.py"), "w") as fd:
    fd.write(GATES)

HEAD = "from .mygates usepulses *\nregister q[2]\n"
PROGRAMS = [
    HEAD + "prepare_all\nMS q[0] q[0] 1.0\nmeasure_all\n",
    HEAD + "map a q[0]\nprepare_all\nMS q[0] a 1.0\nmeasure_all\n",
    HEAD + "macro m x y { MS x y 1.0 }\nprepare_all\nm q[1] q[1]\nmeasure_all\n",
]

failed = False
for text in PROGRAMS:
    try:
        res = run_jaqal_string(text, import_path=workdir)
        print("result   ", repr(text), [list(s.probability_by_int) for s in res.subcircuits])
    except JaqalError as exc:
        print("refused  ", repr(text), "JaqalError:", exc)
    except Exception as exc:
        print("VIOLATION", repr(text), f"{type(exc).__name__}: {exc}")
        failed = True

sys.exit(1 if failed else 0)
