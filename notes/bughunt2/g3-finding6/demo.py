"""C03: numpy integers (what numpy.arange / array indexing hand out) are refused as
numeric gate arguments and as qubit indices of a program over typed native gates,
with messages such as "parameter n=2 does not have type ParamType.INT" and
"Qubit index 1 is not an integer" - while the same values are accepted as loop
count, let value, override value and by the generator.

prepare_all ; X q[1] ; Pw q[0] 2 ; Rz q[0] 2 ; measure_all  with numpy.int64 values.
"""
import sys
import numpy

from jaqalpaq.core import GateDefinition, Parameter, ParamType
from jaqalpaq.core.gatedef import BusyGateDefinition
from jaqalpaq.core.circuitbuilder import CircuitBuilder
from jaqalpaq.emulator import run_jaqal_circuit
from jaqalpaq.error import JaqalError


def rz(a):
    return numpy.array([[numpy.exp(-0.5j * a), 0], [0, numpy.exp(0.5j * a)]])


gates = {
    "X": GateDefinition(
        "X",
        [Parameter("q", ParamType.QUBIT)],
        ideal_unitary=lambda: numpy.array([[0, 1], [1, 0]], dtype=complex),
    ),
    "Rz": GateDefinition(
        "Rz", [Parameter("q", ParamType.QUBIT), Parameter("a", ParamType.FLOAT)], ideal_unitary=rz
    ),
    "Pw": GateDefinition(
        "Pw",
        [Parameter("q", ParamType.QUBIT), Parameter("n", ParamType.INT)],
        ideal_unitary=lambda n: rz(n * numpy.pi / 4),
    ),
    "prepare_all": BusyGateDefinition("prepare_all"),
    "measure_all": BusyGateDefinition("measure_all"),
}

two, one = numpy.arange(3)[2], numpy.arange(3)[1]  # numpy.int64
failures = []


def attempt(label, add):
    builder = CircuitBuilder(gates)
    q = builder.register("q", 2)
    builder.gate("prepare_all")
    try:
        add(builder, q)
        builder.gate("measure_all")
        result = run_jaqal_circuit(builder.build())
        print(f"{label}: ok", numpy.round(result.subcircuits[0].simulated_probability_by_int, 3))
    except JaqalError as exc:
        print(f"{label}: refused: {exc}")
        failures.append(label)


attempt("FLOAT argument numpy.int64(2)", lambda b, q: b.gate("Rz", q[0], two))
attempt("INT argument numpy.int64(2)  ", lambda b, q: b.gate("Pw", q[0], two))
attempt("qubit index numpy.int64(1)   ", lambda b, q: b.gate("X", q[one]))
# for comparison: python numbers, and a numpy integer as index inside an s-expression
attempt("python int 2                 ", lambda b, q: b.gate("Pw", q[0], 2))
attempt("array_item with numpy.int64  ", lambda b, q: b.gate("X", ("array_item", "q", one)))

if failures:
    print("VIOLATION: numeric arguments / indices refused:", failures)
    sys.exit(1)
print("ok")
