"""C10/C09: a subcircuit count that names a register, an alias or a qubit is accepted
(directly and through a macro argument), executed, and written out as a Python repr."""
import sys
from jaqalpaq.error import JaqalError
from jaqalpaq.parser import parse_jaqal_string
from jaqalpaq.core.algorithm import expand_macros, fill_in_let
from jaqalpaq.generator import generate_jaqal_program

bad = 0
for text in (
    "register q[2]\nsubcircuit q { G q[0] }\n",
    "register q[2]\nmap s q[1]\nsubcircuit s { G q[0] }\n",
    "register q[2]\nmacro m c { subcircuit c { G q[0] } }\nm q[1]\n",
):
    print("program:", text.replace("\n", "; "))
    try:
        c = parse_jaqal_string(text, autoload_pulses=False)
        out = expand_macros(fill_in_let(c))
    except JaqalError as exc:
        print("  refused (expected):", exc)
        continue
    regenerated = generate_jaqal_program(out)
    line = [l for l in regenerated.splitlines() if "subcircuit" in l][0]
    print("  accepted; after fill_in_let + expand_macros the text reads:", repr(line))
    try:
        parse_jaqal_string(regenerated, autoload_pulses=False)
        print("  (re-parses)")
    except JaqalError as exc:
        print("  the regenerated text does not parse:", exc)
    bad += 1

if bad:
    print("VIOLATION: an illegal subcircuit count was accepted and the pass result is not legal Jaqal")
    sys.exit(1)
print("no violation")
