"""C13: acceptance of a program depends on the order in which the branches of a parallel block
are written, when one branch is prepare_all / measure_all and the other an idle gate."""
import sys
import numpy as np
from jaqalpaq.core import GateDefinition, Parameter, ParamType
from jaqalpaq.core.gatedef import BusyGateDefinition, add_idle_gates
from jaqalpaq.core.algorithm import get_used_qubit_indices
from jaqalpaq.parser import parse_jaqal_string
from jaqalpaq.emulator import run_jaqal_circuit
from jaqalpaq.error import JaqalError

X = GateDefinition(
    "X",
    [Parameter("q", ParamType.QUBIT)],
    ideal_unitary=lambda: np.array([[0, 1], [1, 0]], dtype=complex),
)
NATIVE = add_idle_gates(  # adds I_X, the idle gate of X (uses no qubit)
    {
        "X": X,
        "prepare_all": BusyGateDefinition("prepare_all"),
        "measure_all": BusyGateDefinition("measure_all"),
    }
)


def outcome(text):
    circuit = parse_jaqal_string(text, inject_pulses=NATIVE, autoload_pulses=False)
    try:
        res = run_jaqal_circuit(circuit)
        return [[round(float(p), 6) for p in sc.probability_by_int] for sc in res.subcircuits]
    except JaqalError as exc:
        return f"JaqalError: {exc}"


PAIRS = [
    (
        "register q[2]\n< prepare_all | I_X q[0] >\nX q[0]\nmeasure_all\n",
        "register q[2]\n< I_X q[0] | prepare_all >\nX q[0]\nmeasure_all\n",
    ),
    (
        "register q[2]\nprepare_all\nX q[0]\n< I_X q[0] | measure_all >\n",
        "register q[2]\nprepare_all\nX q[0]\n< measure_all | I_X q[0] >\n",
    ),
]
bad = 0
for one, other in PAIRS:
    a, b = outcome(one), outcome(other)
    print(one.replace("\n", "; "), "->", a)
    print(other.replace("\n", "; "), "->", b)
    if a != b:
        print("   the two orders of the same parallel block give different outcomes")
        bad += 1
sys.exit(1 if bad else 0)
