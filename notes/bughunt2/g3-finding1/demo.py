"""C03: a GateStatement whose name->value parameter map is not written in the
definition's order is executed by POSITION, i.e. on the wrong qubits.

GateStatement(gate_def, parameters) documents `parameters` as "a map from gate
parameter names to the values to pass for those parameters".  Below the CX
statement says  c (control) = q[1],  t (target) = q[0].  q[1] is set to 1 before,
so the target q[0] must flip: expected outcome |q0 q1> = "11".
"""
import sys
import numpy

from jaqalpaq.core import (
    Circuit,
    GateDefinition,
    GateStatement,
    Parameter,
    ParamType,
    Register,
)
from jaqalpaq.core.gatedef import BusyGateDefinition
from jaqalpaq.emulator import run_jaqal_circuit


def cx():
    # bit 0 of the matrix index = first qubit parameter (c), bit 1 = second (t)
    u = numpy.zeros((4, 4), dtype=complex)
    for i in range(4):
        c, t = i & 1, (i >> 1) & 1
        u[c | ((t ^ c) << 1), i] = 1
    return u


gates = {
    "X": GateDefinition(
        "X",
        [Parameter("q", ParamType.QUBIT)],
        ideal_unitary=lambda: numpy.array([[0, 1], [1, 0]], dtype=complex),
    ),
    "CX": GateDefinition(
        "CX",
        [Parameter("c", ParamType.QUBIT), Parameter("t", ParamType.QUBIT)],
        ideal_unitary=cx,
    ),
    "prepare_all": BusyGateDefinition("prepare_all"),
    "measure_all": BusyGateDefinition("measure_all"),
}

circuit = Circuit(native_gates=gates)
q = Register("q", 2)
circuit.registers["q"] = q

by_name = GateStatement(gates["CX"], {"t": q[0], "c": q[1]})  # control q[1], target q[0]
reference = gates["CX"](c=q[1], t=q[0])  # the same call through AbstractGate.call

circuit.body.statements.extend(
    [gates["prepare_all"](), gates["X"](q[1]), by_name, gates["measure_all"]()]
)

result = run_jaqal_circuit(circuit)
probs = result.subcircuits[0].simulated_probability_by_str
print("statement parameters :", by_name.parameters)
print("equivalent call()    :", reference.parameters)
print("probabilities        :", dict(probs))

expected = "11"  # X q[1]; CX control q[1] -> flips q[0]
if abs(probs[expected] - 1.0) > 1e-9:
    print(
        f"VIOLATION: expected outcome {expected!r} with probability 1, the emulator applied "
        "CX with control q[0] / target q[1] (dictionary order) instead of c=q[1], t=q[0]"
    )
    sys.exit(1)
print("ok")
