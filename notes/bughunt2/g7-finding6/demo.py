"""C18: an INT parameter accepts integers "including integral floats".  A let constant
with the value 2.0 is accepted, but a let constant defined by another let constant
(Constant's documented value types: Constant, int or float) with that same value is
refused - while its non-integral sibling (2.5) is refused for the right reason and the
FLOAT kind accepts both."""
import sys
from jaqalpaq.core import GateDefinition, Parameter, ParamType
from jaqalpaq.core.constant import Constant
from jaqalpaq.error import JaqalError

gi = GateDefinition("GI", [Parameter("n", ParamType.INT)])
bad = 0


def check(value, want):
    global bad
    try:
        gi(value)
        got = "accepted"
    except JaqalError:
        got = "refused"
    pos = got
    try:
        gi(n=value)
        kw = "accepted"
    except JaqalError:
        kw = "refused"
    flag = "" if (got == want and kw == want) else "   <-- WRONG"
    bad += bool(flag)
    print(f"GI({value!r:35}) positional {pos}, keyword {kw}, expected {want}{flag}")


d_int = Constant("d", 2)
d_flt = Constant("d", 2.0)
d_bad = Constant("d", 2.5)
check(2.0, "accepted")
check(d_int, "accepted")
check(d_flt, "accepted")
check(d_bad, "refused")
check(Constant("c", d_int), "accepted")
check(Constant("c", d_flt), "accepted")  # refused by the current code
check(Constant("c", Constant("b", d_flt)), "accepted")
check(Constant("c", d_bad), "refused")

print("VIOLATED" if bad else "ok")
sys.exit(1 if bad else 0)
