"""C03 (and C12): the s-expression form of a subcircuit block documented by
jaqalpaq.core.circuitbuilder.build ("subcircuit_block : *statements", like
sequential_block / parallel_block) silently loses its first statement: the
builder takes it for the iteration count, stores the GateStatement object as
`iterations` without any check, and the emulator runs the block without it.

Expected: subcircuit { X q[0]; X q[1] }  ->  outcome "11" with probability 1.
"""
import sys
import numpy

from jaqalpaq.core import GateDefinition, Parameter, ParamType
from jaqalpaq.core.gatedef import BusyGateDefinition
from jaqalpaq.core.circuitbuilder import build
from jaqalpaq.emulator import run_jaqal_circuit
from jaqalpaq.error import JaqalError

gates = {
    "X": GateDefinition(
        "X",
        [Parameter("q", ParamType.QUBIT)],
        ideal_unitary=lambda: numpy.array([[0, 1], [1, 0]], dtype=complex),
    ),
    "prepare_all": BusyGateDefinition("prepare_all"),
    "measure_all": BusyGateDefinition("measure_all"),
}

sexpr = [
    "circuit",
    ["register", "q", 2],
    [
        "subcircuit_block",  # documented signature: subcircuit_block : *statements
        ["gate", "X", ["array_item", "q", 0]],
        ["gate", "X", ["array_item", "q", 1]],
    ],
]

try:
    circuit = build(sexpr, inject_pulses=gates)
    block = circuit.body.statements[0]
    print("iterations of the block :", repr(block.iterations))
    print("statements of the block :", block.statements)
    result = run_jaqal_circuit(circuit)
except JaqalError as exc:
    # Refusing the form (because a count is required first) would be a legitimate answer.
    print("refused with JaqalError:", exc)
    sys.exit(0)

probs = result.subcircuits[0].simulated_probability_by_str
print("probabilities           :", dict(probs))
if abs(probs["11"] - 1.0) > 1e-9:
    print(
        "VIOLATION: the program was accepted, but `X q[0]` was dropped (it became the "
        "subcircuit's iteration count); the emulator reports the state of `X q[1]` alone"
    )
    sys.exit(1)
print("ok")
