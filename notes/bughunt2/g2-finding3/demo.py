"""C16: a flat program (no nested blocks at all) with a chain of macros, each calling
the previous one, escapes as RecursionError from parse_jaqal_string(expand_macro=True)
and from run_jaqal_string."""
import os, sys, tempfile, warnings

warnings.simplefilter("ignore")

from jaqalpaq.error import JaqalError
from jaqalpaq.parser import parse_jaqal_string
from jaqalpaq.run import run_jaqal_string

GATES = '''
import numpy as np
from jaqalpaq.core import GateDefinition, Parameter, ParamType
from jaqalpaq.core.gatedef import BusyGateDefinition

class jaqal_gates:
    ALL_GATES = {g.name: g for g in [
        BusyGateDefinition("prepare_all"),
        BusyGateDefinition("measure_all"),
        GateDefinition("X", [Parameter("q", ParamType.QUBIT)],
                       ideal_unitary=lambda: np.array([[0, 1], [1, 0]], dtype=complex)),
    ]}
'''
workdir = tempfile.mkdtemp()
with open(os.path.join(workdir, "mygates.py"), "w") as fd:
    fd.write(GATES)

N = 200
lines = ["register q[1]", "macro f0 a { X a }"]
lines += [f"macro f{i} a {{ f{i - 1} a }}" for i in range(1, N + 1)]
lines += ["prepare_all", f"f{N} q[0]", "measure_all"]
body = "\n".join(lines) + "\n"

calls = {
    "parse_jaqal_string(text, autoload_pulses=False)": lambda: parse_jaqal_string(
        body, autoload_pulses=False
    ),
    "parse_jaqal_string(text, autoload_pulses=False, expand_macro=True)": lambda: parse_jaqal_string(
        body, autoload_pulses=False, expand_macro=True
    ),
    "run_jaqal_string(usepulses + text)": lambda: run_jaqal_string(
        "from .mygates usepulses *\n" + body, import_path=workdir
    ),
}

failed = False
print(f"program: {N + 1} one-line macros, f<i> calls f<i-1>; then `prepare_all; f{N} q[0]; measure_all`")
for label, call in calls.items():
    try:
        call()
        print("ok       ", label)
    except JaqalError as exc:
        print("refused  ", label, "JaqalError:", exc)
    except BaseException as exc:
        print("VIOLATION", label, f"{type(exc).__name__}: {exc}")
        failed = True

sys.exit(1 if failed else 0)
