"""C18: for EVERY active gate of the set passed to add_idle_gates the derived idle gate
I_<name> must exist (same signature, no qubits, no effect) and the active gates must be
kept.  If the set holds an active gate whose own name is I_<other gate>, one of the two
silently overwrites the other - which one depends on the dictionary order."""
import sys
import numpy as np
from jaqalpaq.core import GateDefinition, Parameter, ParamType
from jaqalpaq.core.gatedef import add_idle_gates, IdleGateDefinition
from jaqalpaq.parser import parse_jaqal_string
from jaqalpaq.run import run_jaqal_circuit
from jaqalpaq.core.gatedef import BusyGateDefinition
from jaqalpaq.error import JaqalError

X = np.array([[0, 1], [1, 0]], dtype=complex)
Q = ParamType.QUBIT
gx = GateDefinition("X", [Parameter("q", Q)], ideal_unitary=lambda: X)
# an ACTIVE gate that happens to be called I_X (a flip on two qubits)
gix = GateDefinition(
    "I_X",
    [Parameter("a", Q), Parameter("b", Q)],
    ideal_unitary=lambda: np.kron(X, X),
)
bad = 0
for order in (("X", "I_X"), ("I_X", "X")):
    active = {n: {"X": gx, "I_X": gix}[n] for n in order}
    try:
        result = add_idle_gates(active)
    except JaqalError as exc:
        # refusing the ambiguous set is a correct answer as well
        print("input order", order, "-> refused:", exc)
        continue
    print("input order", order, "->", {k: type(v).__name__ for k, v in result.items()})
    # every active gate passed in must still be there, unchanged
    for name, g in active.items():
        if result.get(name) is not g:
            print(f"   active gate {name} was replaced by {result.get(name)!r}")
            bad += 1
    # every active gate must have its derived idle gate
    idles = [
        v
        for v in result.values()
        if isinstance(v, IdleGateDefinition) and v._parent_def is gx
    ]
    if not idles:
        print("   there is no idle gate derived from X in the result")
        bad += 1

# consequence under emulation: with the order (X, I_X) the name I_X acts on the state,
# with the order (I_X, X) the same program text is refused / does nothing
base = {
    "prepare_all": BusyGateDefinition("prepare_all"),
    "measure_all": BusyGateDefinition("measure_all"),
}
prog = "register q[2]\nprepare_all\nI_X q[0] q[1]\nmeasure_all\n"
for order in (("X", "I_X"), ("I_X", "X")):
    try:
        gates = add_idle_gates(
            {**base, **{n: {"X": gx, "I_X": gix}[n] for n in order}}
        )
        res = run_jaqal_circuit(
            parse_jaqal_string(prog, inject_pulses=gates, autoload_pulses=False)
        )
        print(order, "I_X q[0] q[1] ->", dict(res.subcircuits[0].probability_by_str))
    except Exception as exc:  # noqa
        print(order, "I_X q[0] q[1] ->", type(exc).__name__, exc)

print("VIOLATED" if bad else "ok")
sys.exit(1 if bad else 0)
