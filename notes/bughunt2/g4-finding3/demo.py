"""C05: fill_in_let does not validate a substituted index when the indexed
register is a macro parameter: an override 2.5 (or -1) for a let used as r[a]
is accepted and yields `G r[2.5]` - not legal Jaqal, and the call can never be
expanded - while the same index on a header register (q[a]) is refused."""
import sys
from jaqalpaq.parser import parse_jaqal_string
from jaqalpaq.core.algorithm import fill_in_let, expand_macros
from jaqalpaq.generator import generate_jaqal_program
from jaqalpaq.error import JaqalError

bad = 0
for override in ({"a": 2.5}, {"a": -1}):
    for text in (
        "let a 1; register q[3]; macro m r { G q[a] }; m q",  # header register: refused (control)
        "let a 1; register q[3]; macro m r { G r[a] }; m q",  # register parameter
    ):
        circuit = parse_jaqal_string(text, autoload_pulses=False)
        print("----", text, "override", override)
        try:
            filled = fill_in_let(circuit, override)
        except JaqalError as exc:
            print("refused with JaqalError:", exc)
            continue
        out = generate_jaqal_program(filled)
        print("ACCEPTED; result:\n" + out)
        bad += 1
        try:
            parse_jaqal_string(out, autoload_pulses=False)
            print("(the text parses back)")
        except JaqalError as exc:
            print("the generated text is not legal Jaqal:", exc)
        try:
            expand_macros(filled)
        except JaqalError as exc:
            print("and the call in the result cannot be expanded:", exc)

# same hole without any let: a qubit alias / a register used as INDEX of a parameter
for text in (
    "register q[3]; map b q[1]; macro m r { G q[b] }",  # control: refused
    "register q[3]; map b q[1]; macro m r { G r[b] }",
    "register q[3]; macro m r { G r[q] }",
):
    print("----", text)
    try:
        c = parse_jaqal_string(text, autoload_pulses=False)
    except JaqalError as exc:
        print("refused with JaqalError:", exc)
        continue
    print("ACCEPTED; generated:", generate_jaqal_program(c).split("\n")[-4].strip())
    bad += 1
sys.exit(1 if bad else 0)
