"""C01: a subcircuit count that names a register / qubit is accepted by the
parser (the same thing as a loop count is refused), and the generator then
writes the Python repr of the object: the generated text does not parse."""
import sys

from jaqalpaq.error import JaqalError
from jaqalpaq.generator import generate_jaqal_program
from jaqalpaq.parser import parse_jaqal_string

CASES = [
    # (text, parse flags)
    ("register q[2]\nsubcircuit q { foo q[0] }\n", {}),
    ("register q[2]\nmap a q[1]\nsubcircuit a { foo q[0] }\n", {}),
    (
        "register q[2]\nmacro m c { subcircuit c { foo q[0] } }\nloop 2 { m q[1] }\n",
        {"expand_macro": True},
    ),
]

bad = 0
for text, flags in CASES:
    print("-----", repr(text), flags)
    try:
        circ = parse_jaqal_string(text, autoload_pulses=False, **flags)
    except JaqalError as exc:
        print("   refused by the parser (fine):", exc)
        continue
    generated = generate_jaqal_program(circ)
    print("   accepted; generated text:")
    print("      " + generated.replace("\n", "\n      "))
    try:
        again = parse_jaqal_string(generated, autoload_pulses=False)
    except JaqalError as exc:
        print("   VIOLATION: generated text is refused:", exc)
        bad += 1
        continue
    if again != circ or generate_jaqal_program(again) != generated:
        print("   VIOLATION: re-parsed circuit differs")
        bad += 1

# The same hole through the S-expression API, written as build()'s docstring
# gives the signature (subcircuit_block : *statements): the first statement is
# silently taken as the count and vanishes from the body.
from jaqalpaq.core.circuitbuilder import build

sexpr = ["circuit", ["register", "q", 2],
         ["subcircuit_block", ["gate", "foo"], ["gate", "bar"]]]
try:
    circ = build(sexpr)
    print("----- S-expression", sexpr)
    print("   built:", circ.body)
    text_circ = parse_jaqal_string("register q[2]; subcircuit { foo; bar }", autoload_pulses=False)
    if circ != text_circ:
        print("   VIOLATION: count is", repr(circ.body.statements[0].iterations),
              "and the body lost its first statement")
        bad += 1
except JaqalError as exc:
    print("   refused (fine):", exc)

sys.exit(1 if bad else 0)
