"""C03: a let constant defined through another let constant (documented for
jaqalpaq.core.Constant: "value: ... can be either a literal value or another
Constant") is accepted by the builder, but run_jaqal_circuit refuses the program:
the let value is never resolved to its number.

Expected: Rx(pi) on |0> gives outcome "1" with probability 1.
"""
import sys
import numpy

from jaqalpaq.core import Constant, GateDefinition, Parameter, ParamType
from jaqalpaq.core.gatedef import BusyGateDefinition
from jaqalpaq.core.circuitbuilder import CircuitBuilder
from jaqalpaq.emulator import run_jaqal_circuit
from jaqalpaq.error import JaqalError


def rx(a):
    c, s = numpy.cos(a / 2), numpy.sin(a / 2)
    return numpy.array([[c, -1j * s], [-1j * s, c]])


gates = {
    "Rx": GateDefinition(
        "Rx",
        [Parameter("q", ParamType.QUBIT), Parameter("a", ParamType.FLOAT)],
        ideal_unitary=rx,
    ),
    "prepare_all": BusyGateDefinition("prepare_all"),
    "measure_all": BusyGateDefinition("measure_all"),
}

builder = CircuitBuilder(gates)
pi = builder.let("pi", numpy.pi)
angle = builder.let("angle", pi)  # a let whose value is another let
assert isinstance(angle, Constant) and float(angle) == numpy.pi
q = builder.register("q", 1)
builder.gate("prepare_all")
builder.gate("Rx", q[0], angle)
builder.gate("measure_all")
circuit = builder.build()  # accepted
print("built:", circuit.constants)

try:
    result = run_jaqal_circuit(circuit)
except JaqalError as exc:
    print("VIOLATION: run_jaqal_circuit refused a valid program:", exc)
    sys.exit(1)

probs = result.subcircuits[0].simulated_probability_by_int
print("probabilities:", probs)
if abs(probs[1] - 1.0) > 1e-9:
    print("VIOLATION: wrong state")
    sys.exit(1)
print("ok")
