"""C16: run_jaqal_string on a program whose register is larger than the emulator can hold
escapes as ValueError (numpy: 'Maximum allowed dimension exceeded') or MemoryError."""
import os, sys, tempfile, warnings

warnings.simplefilter("ignore")

from jaqalpaq.error import JaqalError
from jaqalpaq.run import run_jaqal_string

GATES = '''
from jaqalpaq.core.gatedef import BusyGateDefinition

class jaqal_gates:
    ALL_GATES = {g.name: g for g in [
        BusyGateDefinition("prepare_all"),
        BusyGateDefinition("measure_all"),
    ]}
'''
workdir = tempfile.mkdtemp()
with open(os.path.join(workdir, "mygates.py"), "w") as fd:
    fd.write(GATES)

failed = False
for size in (64, 70, 200, 45):
    text = f"from .mygates usepulses *\nregister q[{size}]\nprepare_all\nmeasure_all\n"
    try:
        run_jaqal_string(text, import_path=workdir)
        print("result   ", repr(text))
    except JaqalError as exc:
        print("refused  ", repr(text), "JaqalError:", str(exc)[:80])
    except BaseException as exc:
        print("VIOLATION", repr(text), f"{type(exc).__name__}: {str(exc)[:90]}")
        failed = True

sys.exit(1 if failed else 0)
