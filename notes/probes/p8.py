import sys
import importlib.util
print("importlib.util preloaded:", 'importlib.util' in sys.modules)
from jaqalpaq.parser import parse_jaqal_string
print("importlib.util after jaqalpaq.parser import:", 'importlib.util' in sys.modules)
def show(title, f):
    print("-----", title)
    try:
        r = f(); print(r)
    except BaseException as e:
        print(" EXC", type(e).__name__, e)
show("relative import", lambda: parse_jaqal_string("from .mygates usepulses *\nregister q[2]\nprepare_all\nX q[0]\nmeasure_all\n", import_path=__import__("os").path.join(__import__("os").path.dirname(__import__("os").path.abspath(__file__)), "mods")).native_gates.keys())
show("relative missing", lambda: parse_jaqal_string("from .nonexist usepulses *\nregister q[2]\n", import_path=__import__("os").path.join(__import__("os").path.dirname(__import__("os").path.abspath(__file__)), "mods")))
show("abs missing", lambda: parse_jaqal_string("from nonexist.mod usepulses *\nregister q[2]\n"))
show("empty dot", lambda: parse_jaqal_string("from . usepulses *\nregister q[2]\n"))
show("rel no path", lambda: parse_jaqal_string("from .mygates usepulses *\nregister q[2]\n"))
show("abs module without jaqal_gates", lambda: parse_jaqal_string("from os usepulses *\nregister q[2]\n"))
show("abs module json", lambda: parse_jaqal_string("from json usepulses *\nregister q[2]\n"))
from jaqalpaq.emulator import run_jaqal_string
show("run", lambda: run_jaqal_string("from .mygates usepulses *\nregister q[2]\nprepare_all\nX q[0]\nmeasure_all\n", import_path=__import__("os").path.join(__import__("os").path.dirname(__import__("os").path.abspath(__file__)), "mods")).subcircuits[0].probability_by_str)
show("run no register", lambda: run_jaqal_string("from .mygates usepulses *\nprepare_all\nmeasure_all\n", import_path=__import__("os").path.join(__import__("os").path.dirname(__import__("os").path.abspath(__file__)), "mods")))
show("run empty", lambda: run_jaqal_string(""))
show("run unknown gate", lambda: run_jaqal_string("from .mygates usepulses *\nregister q[2]\nprepare_all\nFoo q[0]\nmeasure_all\n", import_path=__import__("os").path.join(__import__("os").path.dirname(__import__("os").path.abspath(__file__)), "mods")))
show("run wrong kind", lambda: run_jaqal_string("from .mygates usepulses *\nregister q[2]\nprepare_all\nX 1\nmeasure_all\n", import_path=__import__("os").path.join(__import__("os").path.dirname(__import__("os").path.abspath(__file__)), "mods")))
show("run float to qubit index", lambda: run_jaqal_string("from .mygates usepulses *\nlet a 1.0\nregister q[2]\nprepare_all\nRx q[0] q[1]\nmeasure_all\n", import_path=__import__("os").path.join(__import__("os").path.dirname(__import__("os").path.abspath(__file__)), "mods")))
show("run macro in par", lambda: run_jaqal_string("from .mygates usepulses *\nregister q[2]\nmacro m a { X a }\nprepare_all\n< m q[0] | m q[1] >\nmeasure_all\n", import_path=__import__("os").path.join(__import__("os").path.dirname(__import__("os").path.abspath(__file__)), "mods")).subcircuits[0].probability_by_str)
show("run loop neg", lambda: run_jaqal_string("from .mygates usepulses *\nregister q[2]\nprepare_all\nloop -1 { X q[0] }\nmeasure_all\n", import_path=__import__("os").path.join(__import__("os").path.dirname(__import__("os").path.abspath(__file__)), "mods")).subcircuits[0].probability_by_str)
show("run two regs", lambda: run_jaqal_string("from .mygates usepulses *\nregister q[2]\nregister r[2]\nprepare_all\nmeasure_all\n", import_path=__import__("os").path.join(__import__("os").path.dirname(__import__("os").path.abspath(__file__)), "mods")))
show("run reg as gate arg", lambda: run_jaqal_string("from .mygates usepulses *\nregister q[2]\nprepare_all\nX q\nmeasure_all\n", import_path=__import__("os").path.join(__import__("os").path.dirname(__import__("os").path.abspath(__file__)), "mods")))
show("run macro as arg", lambda: run_jaqal_string("from .mygates usepulses *\nregister q[2]\nmacro m a { X a }\nprepare_all\nX m\nmeasure_all\n", import_path=__import__("os").path.join(__import__("os").path.dirname(__import__("os").path.abspath(__file__)), "mods")))
show("gate named like let", lambda: run_jaqal_string("from .mygates usepulses *\nlet X 1\nregister q[2]\nprepare_all\nX q[0]\nmeasure_all\n", import_path=__import__("os").path.join(__import__("os").path.dirname(__import__("os").path.abspath(__file__)), "mods")).subcircuits[0].probability_by_str)
