from gates import G
class jaqal_gates:
    ALL_GATES = G
