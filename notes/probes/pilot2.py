import random, re
from jaqalpaq.parser.parser import parse_to_sexpression
from jaqalpaq.parser import JaqalParseError
from collections import Counter
r = random.Random(5)
progs = [
 "register q [ 3 ] \n let a 1 \n map r q [ a : 3 : 2 ] \n macro m x y { g x y ; < h x | h y > } \n loop 2 { m q [ 0 ] q [ 1 ] ; subcircuit 3 { g r [ 0 ] 1.5 } } \n < g q [ 0 ] | { h q [ 1 ] ; h q [ 2 ] } > \n",
 "from a.b usepulses * \n let x -1.5 \n register q [ x ] \n { g q [ 0 ] \n h } ; loop x < a | b > \n subcircuit { } \n",
]
pool = ["register","let","map","macro","loop","subcircuit","from","usepulses","*","{","}","<",">","[","]",":",";","|","\n","g","q","1","-2","1.5","a.b",".c"]
cnt=Counter(); shown=Counter()
def positions(toks):
    # render with single spaces; newline tokens rendered as "\n"; return text and list of (line,col,index) for each tok
    text=""; pos=[]; line=1; col=1
    for t in toks:
        pos.append((line,col,len(text)))
        text+=t
        if t=="\n": line+=1; col=1
        else: col+=len(t)
        if t!="\n": text+=" "; col+=1
    return text,pos
for it in range(20000):
    toks = r.choice(progs).split(" ")
    toks = [t for t in toks if t!=""]
    k = r.randrange(len(toks)); op=r.choice("dusr")
    if op=="d": del toks[k]
    elif op=="u": toks.insert(k,toks[k])
    elif op=="s" and k+1<len(toks): toks[k],toks[k+1]=toks[k+1],toks[k]
    else: toks[k]=r.choice(pool)
    text,pos=positions(toks)
    try:
        parse_to_sexpression(text); cnt['accept']+=1
    except JaqalParseError as e:
        # does (line,col) match some token start?
        hit=[i for i,(l,c,_) in enumerate(pos) if (l,c)==(e.line,e.column)]
        key='pos-matches-token' if hit else f'pos-no-token'
        cnt[key]+=1
        if not hit and shown[key]<6:
            shown[key]+=1; print(repr(text)); print("   ", e, "tokpos", [(p[0],p[1]) for p in pos][:8])
    except Exception as e:
        cnt[type(e).__name__]+=1
print(cnt)
