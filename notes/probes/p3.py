from gates import G
from jaqalpaq.parser import parse_jaqal_string
from jaqalpaq.emulator import run_jaqal_circuit
from jaqalpaq.core.algorithm import get_used_qubit_indices, expand_macros, fill_in_let, expand_subcircuits
from jaqalpaq.core.algorithm.fill_in_map import fill_in_map
import numpy as np, signal
def run(text, **kw):
    print("-----", repr(text))
    signal.alarm(5)
    try:
        c = parse_jaqal_string(text, inject_pulses=G, autoload_pulses=False, **kw)
        r = run_jaqal_circuit(c)
        for s in r.subcircuits:
            print(" sub", s.index, dict((k,round(float(v),3)) for k,v in s.simulated_probability_by_str.items() if v>1e-9), "nread", len(s.readouts))
        print(" readouts", [(x.index, x.subcircuit.index, x.as_str) for x in r.readouts])
    except BaseException as e:
        print(" EXC", type(e).__name__, e)
    finally:
        signal.alarm(0)
def h(*a): raise TimeoutError("hang")
signal.signal(signal.SIGALRM, h)
run("register q[3]\nprepare_all\nX q[1]\nmeasure_all")
run("register q[3]\nmap r q[1:3]\nprepare_all\nX r[0]\nmeasure_all")
run("register q[3]\nmap a q[2]\nprepare_all\nX a\nmeasure_all")
run("register q[3]\nprepare_all\nX q[0]\nCX q[0] q[2]\nmeasure_all")
run("register q[3]\nprepare_all\nX q[2]\nCX q[2] q[0]\nmeasure_all")
run("register q[3]\nprepare_all\nX q[-1]\nmeasure_all")
run("register q[3]\nprepare_all\nX q[3]\nmeasure_all")
run("register q[3]\nloop 0 { prepare_all\nX q[1]\nmeasure_all }")
run("register q[3]\nloop 2 { prepare_all\nX q[1]\nmeasure_all }\nloop 3 { subcircuit { X q[0] } }")
run("register q[3]\nloop 2 { loop 2 { subcircuit { X q[0] } } ; subcircuit { } }")
run("register q[3]\nsubcircuit { X q[0] } \n loop 0 { subcircuit { X q[1] } } \n subcircuit { X q[2] }")
run("register q[3]\nprepare_all\n< X q[0] | X q[0] >\nmeasure_all")
run("register q[3]\nprepare_all\n< X q[0] | I_X q[0] >\nmeasure_all")
run("register q[3]\nprepare_all\nCX q[0] q[0]\nmeasure_all")
run("register q[3]\nprepare_all\nX q[0]\nprepare_all\nmeasure_all")
run("register q[3]\nprepare_all\nX q[0]")
run("register q[3]\nprepare_all\nmeasure_all\nprepare_all")
run("register q[3]\nX q[0]")
run("let n 2\nregister q[3]\nloop n { subcircuit { X q[0] } }", )
run("register q[3]\nmacro m a { X a }\nsubcircuit { m q[1] }")
run("register q[3]\nmacro m a { subcircuit { X a } }\n m q[1] ")
run("register q[3]\nsubcircuit 4 { X q[1] }")
