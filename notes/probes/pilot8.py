import random, signal, sys
from gates import G
from jaqalpaq.parser import parse_jaqal_string
from jaqalpaq.emulator import run_jaqal_circuit
from jaqalpaq.error import JaqalError
# AST: ('p',), ('m',), ('g',k) gate X q[k], ('seq',[..]), ('par1',[stmt]), ('loop',n,[..]), ('sub',[..])
def gen(r, depth, in_sub=False, in_par=False):
    out=[]
    for _ in range(r.randint(0,4)):
        c = r.random()
        if c<0.2: out.append(('p',))
        elif c<0.4: out.append(('m',))
        elif c<0.55: out.append(('g', r.randint(0,1)))
        elif depth>0 and c<0.75: out.append(('loop', r.choice([0,1,2,3]), gen(r, depth-1, in_sub, in_par)))
        elif depth>0 and c<0.85 and not in_sub and not in_par: out.append(('sub', [s for s in gen(r, depth-1, True, in_par) if s[0] not in ('p','m')]))
        elif depth>0 and c<0.95: out.append(('blk', gen(r, depth-1, in_sub, in_par)))
    return out
def text(stmts, ind=0, top=True):
    L=[]
    for s in stmts:
        if s[0]=='p': L.append("prepare_all")
        elif s[0]=='m': L.append("measure_all")
        elif s[0]=='g': L.append(f"X q[{s[1]}]")
        elif s[0]=='loop': L.append(f"loop {s[1]} {{\n"+text(s[2],ind+1,False)+"\n}")
        elif s[0]=='sub': L.append("subcircuit {\n"+text(s[1],ind+1,False)+"\n}")
        elif s[0]=='blk':
            if top: L.append("{\n"+text(s[1],ind+1,False)+"\n}")
            else: L.append("< {\n"+text(s[1],ind+1,False)+"\n} >")
    return "\n".join(L)
class Rej(Exception): pass
def reference(stmts):
    # flat-order discovery (literal statement) + unrolled visits
    # flat: walk once ignoring loop counts
    st={'open':None,'closed':[], 'next':0}
    def flat(stmts):
        for s in stmts:
            if s[0]=='sub': flat([('p',)]+s[1]+[('m',)])
            elif s[0]=='p': st['open']=object()
            elif s[0]=='m':
                if st['open'] is None: raise Rej("measure without prepare")
                st['closed'].append(st['open']); st['open']=None
            elif s[0]=='g':
                if st['open'] is None: raise Rej("gate outside")
            elif s[0]=='blk': flat(s[1])
            elif s[0]=='loop':
                entry=st['open']; n0=len(st['closed'])
                flat(s[2])
                # statement rule: loop repeats and contains measure closing a subcircuit opened before loop body
                if s[1]>1 and entry is not None and entry in st['closed'][n0:]: raise Rej("loop rule(statement)")
    flat(stmts)
    return len(st['closed'])
def code_rule(stmts):
    st={'open':None,'n':0}
    def flat(stmts):
        for s in stmts:
            if s[0]=='sub': flat([('p',)]+s[1]+[('m',)])
            elif s[0]=='p': st['open']=True
            elif s[0]=='m':
                if st['open'] is None: raise Rej("measure without prepare")
                st['n']+=1; st['open']=None
            elif s[0]=='g':
                if st['open'] is None: raise Rej("gate outside")
            elif s[0]=='blk': flat(s[1])
            elif s[0]=='loop':
                entry=st['open']; n0=st['n']
                flat(s[2])
                if s[1]>1 and entry is not None and st['n']!=n0: raise Rej("loop rule(code)")
    flat(stmts); return st['n']
def visits(stmts):
    # unrolled execution: sequence of flat indices. assign flat index to each measure site that closes.
    # Flat labelling: do a flat walk assigning to each 'm' site (by id path) its flat subcircuit index
    label={}; st={'open':None,'n':0}
    def flat(stmts, path):
        for i,s in enumerate(stmts):
            p=path+(i,)
            if s[0]=='sub': st['open']=True; flat(s[1],p); label[p+('m',)]=st['n']; st['n']+=1; st['open']=None
            elif s[0]=='p': st['open']=True
            elif s[0]=='m': label[p]=st['n']; st['n']+=1; st['open']=None
            elif s[0] in('blk',): flat(s[1],p)
            elif s[0]=='loop': flat(s[2],p)
    flat(stmts,())
    out=[]; op={'open':False}
    def run(stmts,path):
        for i,s in enumerate(stmts):
            p=path+(i,)
            if s[0]=='sub': op['open']=True; run(s[1],p); out.append(label[p+('m',)]); op['open']=False
            elif s[0]=='p': op['open']=True
            elif s[0]=='m':
                if op['open']: out.append(label[p]); op['open']=False
                else: out.append(('measure-without-open', label[p]))
            elif s[0]=='blk': run(s[1],p)
            elif s[0]=='loop':
                for _ in range(s[1]): run(s[2],p)
    run(stmts,())
    return out
def h(*a): raise TimeoutError("hang")
signal.signal(signal.SIGALRM, h)
r=random.Random(int(sys.argv[1]) if len(sys.argv)>1 else 1)
from collections import Counter
cnt=Counter(); shown=Counter()
for it in range(3000):
    prog=gen(r,3)
    t="register q[2]\n"+text(prog)+"\n"
    try: nref=reference(prog); ref=('ok',nref)
    except Rej as e: ref=('rej',str(e))
    try: ncode=code_rule(prog); cr=('ok',ncode)
    except Rej as e: cr=('rej',str(e))
    signal.alarm(3)
    try:
        c=parse_jaqal_string(t, inject_pulses=G, autoload_pulses=False)
        res=run_jaqal_circuit(c)
        act=('ok',len(res.subcircuits),[x.subcircuit.index for x in res.readouts])
    except JaqalError as e: act=('rej',str(e))
    except TimeoutError: act=('hang',)
    except Exception as e: act=('exc',type(e).__name__,str(e))
    finally: signal.alarm(0)
    key=None
    if act[0]=='ok':
        v=visits(prog)
        if ref[0]!='ok': key='accepted-but-ref-rejects:'+ref[1]
        elif act[1]!=ref[1]: key='subcircuit-count'
        elif act[2]!=v: key='visit-seq-mismatch'
        else: key='agree-ok'
    elif act[0]=='rej':
        if ref[0]=='ok': key='rejected-but-ref-accepts:'+act[1]+ ('(code rule agrees)' if cr[0]=='rej' else '')
        else: key='agree-rej'
    else: key=act[0]+(':'+act[1] if len(act)>1 else '')
    cnt[key]+=1
    if not key.startswith('agree') and shown[key]<2:
        shown[key]+=1
        print("=====",key); print(t); print("ref",ref,"code_rule",cr,"act",act, "visits", visits(prog) if ref[0]=='ok' else None)
print(cnt)
