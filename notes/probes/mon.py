import sys, time
from gates import G
from jaqalpaq.parser import parse_jaqal_string
from jaqalpaq.emulator import run_jaqal_circuit
class Budget(Exception): pass
TOOL = 3
mon = sys.monitoring
mon.use_tool_id(TOOL, "verif")
state = {'n':0, 'limit':0}
def on_line(code, line):
    if 'jaqalpaq' not in code.co_filename:
        return mon.DISABLE
    state['n'] += 1
    if state['n'] > state['limit']:
        raise Budget()
mon.register_callback(TOOL, mon.events.LINE, on_line)
def run(text, limit):
    state['n']=0; state['limit']=limit
    mon.set_events(TOOL, mon.events.LINE)
    t=time.time()
    try:
        c = parse_jaqal_string(text, inject_pulses=G, autoload_pulses=False)
        r = run_jaqal_circuit(c)
        return 'ok', state['n'], time.time()-t
    except Budget:
        return 'budget', state['n'], time.time()-t
    finally:
        mon.set_events(TOOL, 0)
print(run("register q[3]\nloop 3 { subcircuit { X q[0]; loop 5 { X q[1] } } }\n", 10**6))
print(run("register q[3]\nloop 0 { subcircuit { X q[0] } }\n", 10**6))
print(run("register q[3]\nloop 3 { subcircuit { X q[0]; loop 5 { X q[1] } } }\n", 10**6))
