from jaqalpaq.parser import parse_jaqal_string
from jaqalpaq.generator import generate_jaqal_program
from jaqalpaq.error import JaqalError
import traceback
def rt(text, **kw):
    print("-----", repr(text))
    try:
        c = parse_jaqal_string(text, autoload_pulses=False, **kw)
    except Exception as e:
        print("PARSE EXC", type(e).__name__, e); return
    try:
        t = generate_jaqal_program(c)
    except Exception as e:
        print("GEN EXC", type(e).__name__, e); return
    print(t)
    try:
        c2 = parse_jaqal_string(t, autoload_pulses=False)
        print("EQ", c == c2, "TEXT2==", generate_jaqal_program(c2) == t)
    except Exception as e:
        print("REPARSE EXC", type(e).__name__, e)

rt("let y 0.000001\nregister q[2]\ng q[0] y")
rt("register q[2]\ng q[0] 0.000001")
rt("register q[2]\ng q[0] 1e5")
rt("register q[2]\ng q[0] 10000000000000000.0")
rt("let n 3\nregister q[4]\nsubcircuit n { g q[0] }")
rt("register q[4]\nsubcircuit 5 { g q[0] }")
rt("let a 1\nlet b 3\nregister q[4]\nmap r q[a:b]\nmap s q[a:b:2]\nmap t q[:b]\nmap u q[a:]\nmap v q[::2]\n g r[0] s[0] t[0] u[0] v[0]")
rt("register q[4]\nmap r q[0:4:2]\nmap s r[1]\nmap w r\n g s w[1]")
rt("register q[4]\nmacro m a b { g a b; <h a | h b> ; loop 2 { g b a } }\n m q[0] q[1]")
rt("register q[4]\nloop 2 < g q[0] | g q[1] >")
rt("register q[4]\n{ g q[0] ; < g q[1] | { g q[2]; g q[3] } > }")
rt("register q[4]\nbranch { '0': { g q[0] }; '1': { g q[1] } }")
rt("let n -3\nlet x -0.5\nregister q[4]\ng q[0] n x -1 +2 -.5 +.5")
rt("register q[4]\nmacro m a { g a[0] } \n m q")
rt("from foo.bar usepulses *\nfrom .baz usepulses *\nregister q[2]\ng q[0]")
rt("register q[2]\n g q[0] 1.0 2.0")
rt("let a 2.0\nregister q[a]\n g q[0] a")
