from jaqalpaq.qsyntax import circuit
from jaqalpaq.parser import parse_jaqal_string
from jaqalpaq.generator import generate_jaqal_program as gen
from jaqalpaq.core.circuitbuilder import CircuitBuilder, SequentialBlockBuilder, ParallelBlockBuilder, SubcircuitBlockBuilder
def show(title, f):
    print("-----", title)
    try:
        r = f(); print(gen(r) if hasattr(r,'body') else r)
    except BaseException as e:
        print(" EXC", type(e).__name__, e)
@circuit
def c1(Q):
    n = Q.let(3)
    m = Q.let(0.5, "__c1")
    r = Q.register(n, "__c0")
    with Q.loop(n):
        Q.g(r[0], m, 1.5)
        with Q.parallel():
            Q.h(r[1]); 
            with Q.sequential():
                Q.k(r[2]); Q.k(r[n])
    with Q.subcircuit(n):
        Q.g(r[0])
show("q1", c1)
@circuit
def c2(Q):
    r = Q.register(2)
    with Q.subcircuit():
        Q.g(r[0])
    Q.h(r[1])
show("q2", c2)
@circuit
def c3(Q):
    r = Q.register(2)
    with Q.loop(2):
        with Q.subcircuit():
            Q.g(r[0])
show("q3 loop starting with subcircuit", c3)
@circuit
def c4(Q):
    r = Q.register(2)
    with Q.loop(2):
        Q.prepare_all(); Q.g(r[0]); Q.measure_all()
show("q4", c4)
@circuit
def c5(Q):
    r = Q.register(2, "__r0"); 
    a = Q.let(1); b = Q.let(2, "__c0")
    Q.g(r[a], b)
show("q5 namer", c5)
@circuit
def c6(Q):
    a = Q.let(1); r = Q.register(2, "__c0")
    Q.g(r[a])
show("q6 namer cross", c6)
# builder
b = CircuitBuilder()
n = b.let("n", 3, unevaluated=True)
q = b.register("q", "n", unevaluated=True)
blk = b.block()
blk.gate("g", ("array_item","q",0), "n", 1.5)
p = blk.block(parallel=True)
p.gate("h", ("array_item","q",1))
s = SequentialBlockBuilder(); s.gate("k", ("array_item","q",2))
b.loop("n", s, unevaluated=True)
sb = b.subcircuit(5); sb.gate("g", ("array_item","q",0))
show("builder", b.build)
print(b.expression)
