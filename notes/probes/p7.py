from gates import G
import numpy as np, copy
from jaqalpaq.parser import parse_jaqal_string
from jaqalpaq.generator import generate_jaqal_program as gen
from jaqalpaq.core.algorithm import get_used_qubit_indices, expand_macros, fill_in_let, expand_subcircuits, normalize_blocks_with_unitary_timing
from jaqalpaq.core.algorithm.fill_in_map import fill_in_map
from jaqalpaq.emulator import run_jaqal_circuit
from jaqalpaq.core.result import parse_jaqal_output_list
def P(text, **kw): return parse_jaqal_string(text, autoload_pulses=False, **kw)
t = "let n 2\nregister q[3]\nmap r q[1:3]\nmacro m a { X a ; loop n { X a } }\nsubcircuit { m q[0] ; < X r[0] | X r[1] > }\nloop n { prepare_all ; m r[1] ; measure_all }\n"
c = parse_jaqal_string(t, inject_pulses=G, autoload_pulses=False)
snap = lambda c: (repr(c), gen(c), {k:id(v) for k,v in c.native_gates.items()}, len(c.native_gates))
for name, f in [("expand_macros", expand_macros), ("fill_in_let", fill_in_let), ("fill_in_let o", lambda c: fill_in_let(c, {'n':1})), ("fill_in_map", lambda c: fill_in_map(fill_in_let(c))), ("expand_sub", expand_subcircuits),
                ("norm", normalize_blocks_with_unitary_timing), ("used", get_used_qubit_indices), ("gen", gen), ("run", run_jaqal_circuit), ("outlist", lambda c: parse_jaqal_output_list(expand_subcircuits(c), [0,0,0]))]:
    before = snap(c)
    try:
        r = f(c)
    except Exception as e:
        print(name, "EXC", type(e).__name__, e)
    after = snap(c)
    print(name, "unchanged" if before == after else "CHANGED")
    if hasattr(r, 'native_gates'):
        print("   shares native_gates dict:", r.native_gates is c.native_gates, " body stmts list shared:", r.body.statements is c.body.statements)
# mutate result → input changes?
e = expand_subcircuits(c)
e.native_gates['zzz'] = 1
print('zzz' in c.native_gates)
# anonymous gates: does native_gates dict grow?
c = P("register q[2]\ng q[0]\n")
print(c.native_gates)
f = fill_in_let(c); print(f.native_gates, c.native_gates)
# C20 eq
a = P("register q[2]\ng q[0] 1 2\n"); b = P("register q[2]\ng q[0] 1\n")
print("eq shorter args", a == b, b == a)
a = P("register q[2]\ng q[0] 1\n"); b = P("register q[2]\ng q[0] 1.0\n")
print("eq 1 vs 1.0", a == b)
a = P("register q[3]\nmap r q[0:2]\ng r[0]\n"); b = P("register q[3]\nmap r q[1:3]\ng r[0]\n")
print("eq alias bound", a == b, a.body == b.body)
a = P("register q[3]\nsubcircuit 2 {g q[0]}\n"); b = P("register q[3]\nsubcircuit 3 {g q[0]}\n")
print("eq sub count", a == b)
a = P("register q[3]\n{g q[0]}\n"); b = P("register q[3]\n<g q[0]>\n")
print("eq kind", a == b)
a = P("register q[3]\n{g q[0]}\n"); b = P("register q[3]\ng q[0]\n")
print("eq block vs bare", a == b)
a = P("from a usepulses *\nregister q[3]\n"); b = P("from b usepulses *\nregister q[3]\n")
print("eq usepulses", a == b)
a = P("register q[3]\nmacro m a { g a }\n"); b = P("register q[3]\nmacro m b { g b }\n")
print("eq macro param rename", a == b)
print("eq none", a == None, a != None, a == 5)
try: print(a.macros['m'] == 5)
except Exception as e: print("macro eq 5:", type(e).__name__, e)
a = P("let x 1\nregister q[3]\n g q[0] x"); b = P("let x 2\nregister q[3]\n g q[0] x")
print("eq let value", a == b, a.body == b.body)
a = P("register q[3]\nloop 2 {g q[0]}\n"); b = P("register q[3]\nloop 3 {g q[0]}\n")
print("eq loop count", a == b)
a = P("register q[3]\nloop 2 {g q[0]}\n"); b = P("register q[3]\nsubcircuit 2 {g q[0]}\n")
print("eq loop vs sub", a == b, b == a)
a = P("register q[3]\n"); b = P("register q[4]\n"); print("reg size", a == b)
a = P("register q[3]\n"); b = P("register r[3]\n"); print("reg name", a == b)
