from gates import G
import numpy as np
from jaqalpaq.parser import parse_jaqal_string
from jaqalpaq.generator import generate_jaqal_program as gen
from jaqalpaq.core.algorithm import get_used_qubit_indices, expand_macros, fill_in_let, expand_subcircuits, normalize_blocks_with_unitary_timing
from jaqalpaq.core.algorithm.fill_in_map import fill_in_map
from jaqalpaq.core import GateDefinition, Parameter, ParamType
from jaqalpaq.core.gatedef import add_idle_gates, IdleGateDefinition
from jaqalpaq.core.stretch import stretched_gates
from jaqalpaq.emulator import run_jaqal_circuit
from jaqalpaq.core.result import parse_jaqal_output_list
def P(text, **kw): return parse_jaqal_string(text, autoload_pulses=False, **kw)
def show(title, f):
    print("-----", title)
    try:
        r = f()
        print(gen(r) if hasattr(r,'body') else r)
    except BaseException as e:
        print(" EXC", type(e).__name__, e)
# C18 stretch
show("stretch", lambda: stretched_gates(G, suffix="_s"))
sg = stretched_gates({k:v for k,v in G.items() if k in ("X","Rx","CX")}, suffix="_s")
for k,v in sg.items():
    show("unitary "+k, lambda: v.ideal_unitary(*( [0.3, 2.0] if k=="Rx_s" else [2.0])))
show("stretch nosuffix", lambda: stretched_gates({k:v for k,v in G.items() if k in ("X","Rx","CX")}))
show("stretch idle", lambda: stretched_gates({k:v for k,v in G.items() if k in ("I_X","X")}, suffix="_s"))
# gatedef call
g = GateDefinition("g",[Parameter("a",ParamType.QUBIT),Parameter("n",ParamType.INT),Parameter("f",ParamType.FLOAT),Parameter("u",None)])
c = P("register q[2]\n")
q = c.registers['q']
show("call pos", lambda: g(q[0], 1, 2.0, "x"))
show("call kw", lambda: g(a=q[0], n=1, f=2.0, u="x"))
show("eq", lambda: g(q[0], 1, 2.0, "x") == g(a=q[0], n=1, f=2.0, u="x"))
show("kw order", lambda: list(g(u="x", f=2.0, n=1, a=q[0]).parameters))
show("int float", lambda: g(q[0], 1.0, 2, 3))
show("int nonint float", lambda: g(q[0], 1.5, 2, 3))
show("bool", lambda: g(q[0], True, 2, 3))
show("qubit as int", lambda: g(1, 1, 2, 3))
show("reg as qubit", lambda: g(q, 1, 2, 3))
show("str as float", lambda: g(q[0], 1, "a", 3))
show("nan int", lambda: g(q[0], float('nan'), 1.0, 3))
show("inf int", lambda: g(q[0], float('inf'), 1.0, 3))
show("few", lambda: g(q[0]))
show("none", lambda: g())
show("many", lambda: g(q[0],1,2.0,3,4))
show("mixed", lambda: g(q[0],n=1,f=2.0,u=3))
# timing
t = "register q[4]\n< { g q[0]; h q[0]; k q[0] } | { a q[1] ; < b q[1] | c q[2] > } | d q[3] >\n{ x q[0] ; < y q[1] | { z q[2]; w q[2] } > }\nsubcircuit { p q[0] ; < r q[1] | { s q[2]; t q[2] } > }\n"
show("timing", lambda: normalize_blocks_with_unitary_timing(P(t)))
show("timing loop in par", lambda: normalize_blocks_with_unitary_timing(P("register q[4]\n< {loop 2 { g q[0] }} | h q[1] >")))
show("timing loop", lambda: normalize_blocks_with_unitary_timing(P("register q[4]\nloop 2 { < g q[0] | { h q[1]; k q[1] } > }")))
show("timing par in seq in par", lambda: normalize_blocks_with_unitary_timing(P("register q[4]\n< { < a q[0] | { b q[1]; c q[1] } > ; d q[0] } | { e q[2]; f q[2]; g q[2] } >")))
# C09 output list
t = "register q[2]\nloop 2 { subcircuit { X q[0] } }\nprepare_all\nX q[1]\nmeasure_all\n"
cc = parse_jaqal_string(t, inject_pulses=G, autoload_pulses=False)
show("outlist subcircuit", lambda: [(r.index, r.subcircuit.index, r.as_str, r.as_int) for r in parse_jaqal_output_list(cc, ["10","10","01"]).readouts])
show("outlist ints", lambda: [(r.index, r.subcircuit.index, r.as_str, r.as_int) for r in parse_jaqal_output_list(expand_subcircuits(cc), [1,1,2]).readouts])
show("outlist short", lambda: [(r.index, r.subcircuit.index, r.as_str, r.as_int) for r in parse_jaqal_output_list(expand_subcircuits(cc), [1,1]).readouts])
show("outlist long", lambda: [(r.index, r.subcircuit.index, r.as_str, r.as_int) for r in parse_jaqal_output_list(expand_subcircuits(cc), [1,1,2,3]).readouts])
r = parse_jaqal_output_list(expand_subcircuits(cc), [1,1,2])
for s in r.subcircuits: print(s.index, s.relative_frequency_by_int, s.relative_frequency_by_str, s.probability_by_str)
