import numpy as np
from jaqalpaq.core import GateDefinition, Parameter, ParamType
from jaqalpaq.core.gatedef import BusyGateDefinition, add_idle_gates
def rx(theta): 
    c,s=np.cos(theta/2),np.sin(theta/2); return np.array([[c,-1j*s],[-1j*s,c]])
def X(): return np.array([[0,1],[1,0]],dtype=complex)
def cnot(): return np.array([[1,0,0,0],[0,0,0,1],[0,0,1,0],[0,1,0,0]],dtype=complex)  # bit0 = control (first arg)
Q=lambda n: Parameter(n, ParamType.QUBIT)
F=lambda n: Parameter(n, ParamType.FLOAT)
G = dict(
 prepare_all=BusyGateDefinition("prepare_all"),
 measure_all=BusyGateDefinition("measure_all"),
 X=GateDefinition("X",[Q("q")],ideal_unitary=X),
 Rx=GateDefinition("Rx",[Q("q"),F("t")],ideal_unitary=rx),
 CX=GateDefinition("CX",[Q("c"),Q("t")],ideal_unitary=cnot),
)
G = add_idle_gates(G)
