from gates import G
from jaqalpaq.parser import parse_jaqal_string
from jaqalpaq.generator import generate_jaqal_program as gen
from jaqalpaq.core.algorithm import get_used_qubit_indices, expand_macros, fill_in_let, expand_subcircuits, normalize_blocks_with_unitary_timing
from jaqalpaq.core.algorithm.fill_in_map import fill_in_map
def P(text, **kw): return parse_jaqal_string(text, autoload_pulses=False, **kw)
def show(title, f):
    print("-----", title)
    try:
        r = f()
        print(gen(r) if hasattr(r,'body') else r)
    except BaseException as e:
        print(" EXC", type(e).__name__, e)
# C07 memo
c = P("let i 1\nregister q[3]\nmacro m i { g q[i] }\ng q[i]\nm 2\n")
print(c.body, c.macros)
show("memo1 expand", lambda: expand_macros(c))
show("memo1 fill", lambda: fill_in_let(c))
c = P("let i 1\nregister q[3]\ng q[i]\nmacro m i { g q[i] }\nm 2\n")
print(c.body, c.macros)
show("memo2 expand", lambda: expand_macros(c))
c = P("register q[3]\nmap r q[1:3]\nmacro m r { g r[0] }\ng r[0]\nm q\n")
print(c.body, c.macros)
show("memo3 expand", lambda: expand_macros(c))
show("memo3 used", lambda: get_used_qubit_indices(c))
# C14
for t in ["register q[3]\ng q[-1]", "register q[3]\ng q[3]", "register q[3]\nmap r q[-1:2]\ng r[0]","register q[3]\nmap r q[0:4]","register q[3]\nmap r q[2:1]\n g r[0]","register q[3]\nmap r q[0:3:-1]\n g r[0]",
          "register q[3]\nmap r q[0:3:0]\n g r[0]", "register q[3]\nmap a q[-1]\n g a", "register q[3]\nmap a q[3]", "let n 3\nregister q[n]\ng q[n]", "let n 3\nregister q[3]\ng q[n]",
          "let n 1\nregister q[3]\ng n[0]", "register q[3]\nmap a q[1]\ng a[0]", "register q[3]\ng z[0]", "register q[3]\nlet q 1", "register q[3]\nregister r[2]\n g q[0]", "register q[3]\nmap r q\nmap r q[1]",
          "let n 1\nregister q[3]\nmacro n a { g a }", "register q[3]\nmacro m a { g a }\nmacro m b { g b }", "register q[3]\nmacro m a { g a }\nm q[0] q[1]", "register q[3]\nmacro m a { k a }\nmacro k a { g a }\nm q[0]",
          "register q[3]\nmap r q[1:3]\ng r[2]", "register q[3]\nmap r q[1:3]\nmap s r[1:3]\n", "register q[3]\nmap r q[0:3:2]\ng r[2]", "let a 1.5\nregister q[3]\n g q[a]", "let a 1.5\nregister q[a]\n", "let a 1.5\nregister q[3]\nloop a { g q[0] }",
          "register q[3]\nloop -1 { g q[0] }","register q[3]\nsubcircuit -1 { g q[0] }", "register q[3]\nmacro m a { g q[a] }\nm 5", "register q[3]\nmacro m a { g q[a] }\nm -1", "register q[3]\nmacro m a { g q[a] }\nm 1.5", "register q[3]\nmacro m a { g a[3] }\nm q"]:
    show(repr(t), lambda: P(t))
    try:
        c = P(t)
    except Exception: continue
    show("   ...fill", lambda: fill_in_let(c))
    show("   ...expand", lambda: expand_macros(c))
    show("   ...used", lambda: get_used_qubit_indices(c))
