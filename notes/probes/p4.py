from gates import G
from jaqalpaq.parser import parse_jaqal_string
from jaqalpaq.generator import generate_jaqal_program as gen
from jaqalpaq.core.algorithm import get_used_qubit_indices, expand_macros, fill_in_let, expand_subcircuits, normalize_blocks_with_unitary_timing
from jaqalpaq.core.algorithm.fill_in_map import fill_in_map
def P(text, **kw): return parse_jaqal_string(text, autoload_pulses=False, **kw)
def show(title, f):
    print("-----", title)
    try:
        r = f()
        print(gen(r) if hasattr(r,'body') else r)
    except BaseException as e:
        import traceback
        print(" EXC", type(e).__name__, e)
t = "from a.b usepulses *\nlet n 2\nregister q[3]\nmap r q[1:3]\nmacro m a b { g a b ; loop b { h a } }\nmacro k x { m x n ; subcircuit n { h x } }\nsubcircuit n { m q[0] 1 ; k r[1] }\nloop n { k q[n] }\n"
c = P(t)
show("orig", lambda: c)
show("expand_macros", lambda: expand_macros(c))
show("expand_macros usepulses", lambda: expand_macros(c).usepulses)
show("fill_in_let", lambda: fill_in_let(c))
show("fill_in_let usepulses", lambda: fill_in_let(c).usepulses)
show("fill_in_let override", lambda: fill_in_let(c, {'n': 1}))
show("fill_in_map", lambda: fill_in_map(c))
show("fill_in_map(fill_in_let)", lambda: fill_in_map(fill_in_let(c)))
show("expand_subcircuits", lambda: expand_subcircuits(c))
show("normalize", lambda: normalize_blocks_with_unitary_timing(c))
show("used", lambda: get_used_qubit_indices(c))
show("used(filled)", lambda: get_used_qubit_indices(fill_in_let(c)))
t2 = "register q[3]\nmacro a x { g x }\nmacro b x { a x }\nloop 2 { b q[0] }\n< b q[1] | b q[2] >\n"
c2 = P(t2)
show("nested macro expand", lambda: expand_macros(c2))
show("reparse", lambda: P(gen(expand_macros(c2))))
t3 = "let i 1\nregister q[3]\nmacro m i { g q[i] i }\n m 2\n g q[i] i\n"
c3 = P(t3)
show("shadow orig", lambda: c3)
show("shadow expand", lambda: expand_macros(c3))
show("shadow fill", lambda: fill_in_let(c3))
show("shadow fill expand", lambda: expand_macros(fill_in_let(c3)))
show("shadow expand fill", lambda: fill_in_let(expand_macros(c3)))
t4 = "let a 1\nregister q[3]\nmacro m a { g a }\nmacro k b { g a }\ng a\n m 5\n k 6\n"
c4 = P(t4)
show("memo orig", lambda: c4)
show("memo expand", lambda: expand_macros(c4))
show("memo fill expand", lambda: expand_macros(fill_in_let(c4)))
print(c4.macros['m'].body, c4.macros['k'].body, c4.body)
