from jaqalpaq.parser import parse_jaqal_string
from jaqalpaq.generator import generate_jaqal_program as gen
from jaqalpaq.core.algorithm import expand_macros, fill_in_let
from jaqalpaq.core.algorithm.fill_in_map import fill_in_map
def P(text, **kw): return parse_jaqal_string(text, autoload_pulses=False, **kw)
def show(title, f):
    print("-----", title)
    try:
        r = f(); print(gen(r) if hasattr(r,'body') else r)
    except BaseException as e:
        print(" EXC", type(e).__name__, e)
c = P("register q[4]\nmap r q[1:4]\nmap a r[1]\nmacro m x { g x[0] }\nmacro k y { g y }\nm r\nm q\nk a\nk r[2]\n")
show("map first", lambda: fill_in_map(c))
show("expand then map", lambda: fill_in_map(expand_macros(c)))
show("map then expand", lambda: expand_macros(fill_in_map(c)))
c = P("let n 1\nregister q[4]\nmap r q[n:4]\ng r[n]\n")
show("map before let", lambda: fill_in_map(c))
show("let(override) after map", lambda: fill_in_let(fill_in_map(c), {'n': 2}))
show("map after let(override)", lambda: fill_in_map(fill_in_let(c, {'n': 2})))
show("parser expand_let_map override", lambda: P("let n 1\nregister q[4]\nmap r q[n:4]\ng r[n]\n", expand_let_map=True, override_dict={'n':2}))
show("override unknown key", lambda: fill_in_let(c, {'zz': 2}))
