#!/bin/sh
# Offline setup: make sure hypothesis (and numpy) are importable by /venv/bin/python;
# otherwise install from the offline wheelhouse into /verif/.deps (never into /venv).
cd "$(dirname "$0")" || exit 2
if /venv/bin/python -c "import hypothesis, numpy" 2>/dev/null; then
  echo "setup: hypothesis and numpy importable from /venv"
else
  PIP_NO_INDEX=1 /venv/bin/pip install --no-index --find-links /opt/veriftools/wheels --target ./.deps hypothesis numpy || exit 2
fi
PYTHONPATH=./.deps /venv/bin/python -c "import hypothesis; print('hypothesis', hypothesis.__version__)" || exit 2
if [ -f vlib/selftest.py ]; then PYTHONPATH=./.deps /venv/bin/python -m vlib.selftest || exit 2; fi
exit 0
